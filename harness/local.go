package harness

import (
	"fmt"
	"reflect"
	"strings"
	"time"

	"github.com/enbility/spine-go/api"
	"github.com/enbility/spine-go/model"
	"github.com/enbility/spine-go/spine"
)

// LFeat / LEnt: the harness's own record of what it put into a node's local tree (the
// reference model for discovery oracles is built from these, never read back from the stack).
type LFeat struct {
	Ent   *LEnt
	F     api.FeatureLocalInterface
	ID    uint
	Type  model.FeatureTypeType
	Role  model.RoleType
	Funcs []PFunc
	Desc  string
}

type LEnt struct {
	Node  *Node
	E     api.EntityLocalInterface
	Addr  []uint
	Type  model.EntityTypeType
	Feats []*LFeat
	HB    time.Duration
}

//go:norace
func (f *LFeat) Address() *model.FeatureAddressType { return FAddr(f.Ent.Node.Addr, f.Ent.Addr, f.ID) }

// featurePalette: what a generated server feature of a type offers.
type palEntry struct {
	Type  model.FeatureTypeType
	Funcs []PFunc
}

var serverPalette = []palEntry{
	{model.FeatureTypeTypeLoadControl, []PFunc{
		{model.FunctionTypeLoadControlLimitListData, true, true},
		{model.FunctionTypeLoadControlLimitDescriptionListData, true, false}}},
	{model.FeatureTypeTypeDeviceConfiguration, []PFunc{
		{model.FunctionTypeDeviceConfigurationKeyValueListData, true, true},
		{model.FunctionTypeDeviceConfigurationKeyValueDescriptionListData, true, false}}},
	{model.FeatureTypeTypeSetpoint, []PFunc{
		{model.FunctionTypeSetpointListData, true, true},
		{model.FunctionTypeSetpointDescriptionListData, true, false}}},
	{model.FeatureTypeTypeMeasurement, []PFunc{
		{model.FunctionTypeMeasurementListData, true, false},
		{model.FunctionTypeMeasurementDescriptionListData, true, false}}},
	{model.FeatureTypeTypeElectricalConnection, []PFunc{
		{model.FunctionTypeElectricalConnectionDescriptionListData, true, false},
		{model.FunctionTypeElectricalConnectionPermittedValueSetListData, true, true}}},
	{model.FeatureTypeTypeDeviceDiagnosis, []PFunc{
		{model.FunctionTypeDeviceDiagnosisStateData, true, false}}},
	{model.FeatureTypeTypeIdentification, []PFunc{
		{model.FunctionTypeIdentificationListData, true, false}}},
}

//go:norace
func paletteFor(t model.FeatureTypeType) []PFunc {
	for _, p := range serverPalette {
		if p.Type == t {
			return p.Funcs
		}
	}
	return nil
}

// AddLocalEntity creates and adds a local entity (announce = through DeviceLocal.AddEntity).
//
//go:norace
func (n *Node) NewLocalEntity(addr []uint, t model.EntityTypeType, hb time.Duration) *LEnt {
	e := spine.NewEntityLocal(n.Dev, t, spine.NewAddressEntityType(addr), hb)
	return &LEnt{Node: n, E: e, Addr: addr, Type: t, HB: hb}
}

// AddFeature creates a feature via GetOrAddFeature and adds the given functions.
//
//go:norace
func (e *LEnt) AddFeature(t model.FeatureTypeType, role model.RoleType, funcs ...PFunc) *LFeat {
	f := e.E.GetOrAddFeature(t, role)
	lf := &LFeat{Ent: e, F: f, ID: uint(*f.Address().Feature), Type: t, Role: role, Desc: descOf(f)}
	if role != model.RoleTypeClient {
		for _, fn := range funcs {
			f.AddFunctionType(fn.Fn, fn.R, fn.W)
			lf.Funcs = append(lf.Funcs, fn)
		}
	}
	e.Feats = append(e.Feats, lf)
	return lf
}

//go:norace
func descOf(f api.FeatureLocalInterface) string {
	if d := f.Description(); d != nil {
		return string(*d)
	}
	return ""
}

// ---------------------------------------------------------------------------------------
// function tables harvested from the factory by reflection

type FnInfo struct {
	Fn       model.FunctionType
	DataType reflect.Type // struct type of the function's data (e.g. LoadControlLimitListDataType)
	IsList   bool         // implements model.Updater
	ListFld  int          // index of the slice field in DataType when IsList
	ItemType reflect.Type
}

var fnTable = map[model.FeatureTypeType][]FnInfo{}
var fnByName = map[model.FunctionType]FnInfo{}
var cmdFieldByFn = map[model.FunctionType]string{}

// SetCmdData puts data (a pointer to the function's data type) into the cmd member that carries
// function fn on the wire.
//
//go:norace
func SetCmdData(cmd *model.CmdType, fn model.FunctionType, data any) {
	name, ok := cmdFieldByFn[fn]
	if !ok || data == nil {
		return
	}
	f := reflect.ValueOf(cmd).Elem().FieldByName(name)
	dv := reflect.ValueOf(data)
	if f.IsValid() && dv.Type().AssignableTo(f.Type()) {
		f.Set(dv)
	}
}

var allFeatureTypes = []model.FeatureTypeType{
	model.FeatureTypeTypeActuatorLevel, model.FeatureTypeTypeActuatorSwitch, model.FeatureTypeTypeAlarm, model.FeatureTypeTypeDataTunneling,
	model.FeatureTypeTypeDeviceClassification, model.FeatureTypeTypeDeviceDiagnosis, model.FeatureTypeTypeDirectControl,
	model.FeatureTypeTypeElectricalConnection, model.FeatureTypeTypeGeneric, model.FeatureTypeTypeHvac, model.FeatureTypeTypeLoadControl,
	model.FeatureTypeTypeMeasurement, model.FeatureTypeTypeMessaging, model.FeatureTypeTypeNetworkManagement, model.FeatureTypeTypeNodeManagement,
	model.FeatureTypeTypeOperatingConstraints, model.FeatureTypeTypePowerSequences, model.FeatureTypeTypeSensing, model.FeatureTypeTypeSetpoint,
	model.FeatureTypeTypeSmartEnergyManagementPs, model.FeatureTypeTypeTaskManagement, model.FeatureTypeTypeThreshold,
	model.FeatureTypeTypeTimeInformation, model.FeatureTypeTypeTimeTable, model.FeatureTypeTypeDeviceConfiguration,
	model.FeatureTypeTypeSupplyCondition, model.FeatureTypeTypeTimeSeries, model.FeatureTypeTypeTariffInformation,
	model.FeatureTypeTypeIncentiveTable, model.FeatureTypeTypeBill, model.FeatureTypeTypeIdentification, model.FeatureTypeTypeStateInformation,
}

func init() {
	cmdT := reflect.TypeOf(model.CmdType{})
	fieldFor := map[model.FunctionType]reflect.Type{}
	for i := 0; i < cmdT.NumField(); i++ {
		sf := cmdT.Field(i)
		// the data member of a function carries the function's name on the wire (not taken from
		// the implementation's eebus tags, which are part of what is checked)
		if sf.Type.Kind() == reflect.Ptr && sf.Type.Elem().Kind() == reflect.Struct && sf.Name != "Function" {
			fieldFor[model.FunctionType(jsonName(sf))] = sf.Type.Elem()
			cmdFieldByFn[model.FunctionType(jsonName(sf))] = sf.Name
		}
	}
	updater := reflect.TypeOf((*model.Updater)(nil)).Elem()
	for _, ft := range allFeatureTypes {
		func() {
			defer func() { _ = recover() }() // unknown feature types panic in the factory
			for _, fd := range spine.CreateFunctionData[api.FunctionDataCmdInterface](ft) {
				fn := fd.FunctionType()
				dt := fieldFor[fn]
				if dt == nil {
					continue
				}
				info := FnInfo{Fn: fn, DataType: dt, ListFld: -1}
				if reflect.PointerTo(dt).Implements(updater) {
					info.IsList = true
					for i := 0; i < dt.NumField(); i++ {
						if dt.Field(i).Type.Kind() == reflect.Slice && dt.Field(i).Type.Elem().Kind() == reflect.Struct {
							info.ListFld = i
							info.ItemType = dt.Field(i).Type.Elem()
							break
						}
					}
				}
				fnTable[ft] = append(fnTable[ft], info)
				if ft != model.FeatureTypeTypeGeneric {
					fnByName[fn] = info
				}
			}
		}()
	}
}

// Registered reports whether fn is registered for feature type ft by the factory.
//
//go:norace
func Registered(ft model.FeatureTypeType, fn model.FunctionType) bool {
	for _, i := range fnTable[ft] {
		if i.Fn == fn {
			return true
		}
	}
	return false
}

//go:norace
func fmtUints(a []uint) string {
	var l []string
	for _, x := range a {
		l = append(l, fmt.Sprint(x))
	}
	return "[" + strings.Join(l, ",") + "]"
}
