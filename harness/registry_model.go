package harness

import (
	"fmt"
	"sort"
	"strings"

	"github.com/enbility/spine-go/model"
)

// Registry reference model (DESIGN Appendix A.5), shared by C03, C08, C09, C10.

type RegKey struct {
	Peer   string // peer name
	Client string // full client feature address (device/entity/feature)
	Server string // full server feature address
}

func (k RegKey) String() string { return k.Peer + "|" + k.Client + "|" + k.Server }

// RegOp is one registry operation as issued by a peer.
type RegOp struct {
	Kind     string // "bind", "unbind", "sub", "unsub", "list"
	Peer     string
	Client   string // resolved full address (device filled in from the sender when omitted)
	Server   string
	Valid    bool   // static validity: addresses exist, roles and types match (A.5)
	Desc     string // human readable shape (goes into replay output)
	Listing  string // for "list": canonical listing observed
	OK       bool   // observed outcome
	Call     uint64
	Return   uint64
	ClientID int
}

// staticValid evaluates the grant rule's static part for a request of a scripted peer.
//
//go:norace
func regStaticValid(n *Node, p *Peer, client *model.FeatureAddressType, server *model.FeatureAddressType, ft *model.FeatureTypeType) bool {
	if client == nil || server == nil || ft == nil {
		return false
	}
	// server side: harness's own record of the local tree
	var sf *LFeat
	for _, le := range n.localEnts() {
		if !eqEntAddr(le.Addr, server.Entity) {
			continue
		}
		for _, f := range le.Feats {
			if server.Feature != nil && f.ID == uint(*server.Feature) {
				sf = f
			}
		}
	}
	if sf == nil {
		return false
	}
	if server.Device != nil && string(*server.Device) != n.Addr {
		return false
	}
	if sf.Role != model.RoleTypeServer && sf.Role != model.RoleTypeSpecial {
		return false
	}
	if sf.Type != *ft && sf.Type != model.FeatureTypeTypeGeneric {
		return false
	}
	// client side: what the peer announced
	if client.Device != nil && string(*client.Device) != p.Addr {
		return false
	}
	var cf *PFeat
	for _, e := range p.Ents {
		if !eqEntAddr(e.Addr, client.Entity) {
			continue
		}
		for _, f := range e.Feats {
			if client.Feature != nil && f.ID == uint(*client.Feature) {
				cf = f
			}
		}
	}
	if cf == nil {
		return false
	}
	if cf.Role != model.RoleTypeClient && cf.Role != model.RoleTypeSpecial {
		return false
	}
	if cf.Type != *ft && cf.Type != model.FeatureTypeTypeGeneric {
		return false
	}
	return true
}

func eqEntAddr(a []uint, b []model.AddressEntityType) bool {
	if len(a) != len(b) {
		return false
	}
	for i := range a {
		if a[i] != uint(b[i]) {
			return false
		}
	}
	return true
}

// fullAddr renders an address with the device part defaulted.
//
//go:norace
func fullAddr(a *model.FeatureAddressType, defDev string) string {
	if a == nil {
		return "<nil>"
	}
	cp := *a
	if cp.Device == nil {
		d := model.AddressDeviceType(defDev)
		cp.Device = &d
	}
	return AddrStr(&cp)
}

// regState is the sequential registry: a sorted set of keys.
type regState struct {
	keys []string // RegKey.String(), sorted
}

func (s regState) has(k string) bool {
	i := sort.SearchStrings(s.keys, k)
	return i < len(s.keys) && s.keys[i] == k
}

func (s regState) add(k string) regState {
	n := append(append([]string(nil), s.keys...), k)
	sort.Strings(n)
	return regState{n}
}

func (s regState) del(k string) regState {
	var n []string
	for _, x := range s.keys {
		if x != k {
			n = append(n, x)
		}
	}
	return regState{n}
}

func (s regState) serverBound(server string) bool {
	for _, x := range s.keys {
		if strings.HasSuffix(x, "|"+server) {
			return true
		}
	}
	return false
}

func (s regState) listing(peer string) string {
	var l []string
	for _, x := range s.keys {
		if strings.HasPrefix(x, peer+"|") {
			l = append(l, x)
		}
	}
	return strings.Join(l, ";")
}

func (s regState) String() string { return strings.Join(s.keys, ";") }

// regStep is the sequential specification. single=true is the binding rule (at most one
// binding per server feature).
func regStep(s regState, op RegOp, single bool) (bool, regState) {
	k := RegKey{op.Peer, op.Client, op.Server}.String()
	switch op.Kind {
	case "bind", "sub":
		want := op.Valid && !s.has(k)
		if single && s.serverBound(op.Server) {
			want = false
		}
		if want != op.OK {
			return false, s
		}
		if want {
			return true, s.add(k)
		}
		return true, s
	case "unbind", "unsub":
		want := s.has(k)
		if want != op.OK {
			return false, s
		}
		if want {
			return true, s.del(k)
		}
		return true, s
	case "list":
		return s.listing(op.Peer) == op.Listing, s
	case "drop": // connection of op.Peer removed: all its keys disappear
		var n []string
		for _, x := range s.keys {
			if !strings.HasPrefix(x, op.Peer+"|") {
				n = append(n, x)
			}
		}
		return true, regState{n}
	case "entdrop": // entity op.Client (prefix "dev/[e]/") of op.Peer removed
		var n []string
		for _, x := range s.keys {
			if strings.HasPrefix(x, op.Peer+"|"+op.Client) {
				continue
			}
			n = append(n, x)
		}
		return true, regState{n}
	}
	return false, s
}

// splitDrops replaces the removal of a connection by the removals of the peer's entities, each
// with the window of the whole removal: the registries are cleaned entity by entity, nothing says
// that other peers see that as one step (a feature freed early may be granted to somebody else
// while an entry of another entity of the same peer is still there).
//
//go:norace
func splitDrops(ops []RegOp, peers []*Peer) []RegOp {
	var out []RegOp
	for _, o := range ops {
		if o.Kind != "drop" {
			out = append(out, o)
			continue
		}
		var p *Peer
		for _, q := range peers {
			if q.Name == o.Peer {
				p = q
			}
		}
		if p == nil {
			out = append(out, o)
			continue
		}
		addrs := map[string]bool{"[0]": true, "[1]": true, "[1,1]": true}
		for _, e := range p.Ents {
			addrs[fmtUints(e.Addr)] = true
		}
		var keys []string
		for a := range addrs {
			keys = append(keys, a)
		}
		sort.Strings(keys)
		for _, a := range keys {
			x := o
			x.Kind = "entdrop"
			x.Client = p.Addr + "/" + a + "/"
			out = append(out, x)
		}
	}
	return out
}

func (o RegOp) String() string {
	return fmt.Sprintf("%s %s %s->%s valid=%v ok=%v [%d,%d] %s", o.Kind, o.Peer, o.Client, o.Server, o.Valid, o.OK, o.Call, o.Return, o.Listing)
}
