package harness

import "testing"

// TestSim is the worker entry point; it is driven entirely by VERIF_* environment variables
// set by cmd/vcheck.
func TestSim(t *testing.T) { WorkerMain(t) }
