package harness

import (
	"fmt"

	"github.com/enbility/spine-go/api"
	"github.com/enbility/spine-go/model"
	"github.com/enbility/spine-go/spine"
	"github.com/enbility/spine-go/util"

	"verifsim/simrt"
)

// C13 — outbound message identity: unique counters and sound request de-duplication.

type c13Op struct {
	kind   string // request | notify | write | reply | result | subscribe | bind | response | lookup
	key    string // request identity (destination + command)
	invoke uint64
	ret    uint64
	ctr    uint64 // counter returned (requests, notify, write) or referenced (response) or looked up
	sent   []*Sent
	found  bool   // lookup
	canon  string // lookup result
	task   string
}

type c13Data struct {
	pr     *Proto
	p      *Peer
	snd    api.SenderInterface
	ops    []*c13Op
	maxLen int
}

var c13ReadFns = []model.FunctionType{model.FunctionTypeMeasurementListData, model.FunctionTypeMeasurementDescriptionListData, model.FunctionTypeMeasurementConstraintsListData}

//go:norace
func (d *c13Data) begin(w *World, kind, key string) *c13Op {
	op := &c13Op{kind: kind, key: key, task: simrt.Self().String()}
	d.ops = append(d.ops, op)
	op.invoke = w.Logf("invoke %s %s", kind, key)
	simrt.Self().OpSeq = op.invoke
	return op
}

//go:norace
func (d *c13Data) end(w *World, op *c13Op, ctr *model.MsgCounterType) {
	if ctr != nil {
		op.ctr = uint64(*ctr)
	}
	op.ret = w.Logf("return %s ctr=%d", op.kind, op.ctr)
	for _, s := range d.p.Conn.Out {
		if s.OpSeq == op.invoke && s.Task == op.task {
			op.sent = append(op.sent, s)
		}
	}
}

//go:norace
func (d *c13Data) doOne(w *World, local *LFeat) {
	p := d.p
	snd := d.snd
	src := local.Address()
	dsts := []*model.FeatureAddressType{FAddr(p.Addr, []uint{1}, pfMeasurementServer), FAddr(p.Addr, []uint{1}, pfLoadControlServer), FAddr(p.Addr, []uint{1, 1}, 3)}
	dst := dsts[w.T.Choose(len(dsts), "dst")]
	switch k := w.T.Choose(16, "sender-op"); {
	case k < 6: // request
		fn := c13ReadFns[w.T.Choose(len(c13ReadFns), "read-fn")]
		cmd := model.CmdType{}
		switch fn {
		case model.FunctionTypeMeasurementListData:
			cmd.MeasurementListData = &model.MeasurementListDataType{}
		case model.FunctionTypeMeasurementDescriptionListData:
			cmd.MeasurementDescriptionListData = &model.MeasurementDescriptionListDataType{}
		default:
			cmd.MeasurementConstraintsListData = &model.MeasurementConstraintsListDataType{}
		}
		op := d.begin(w, "request", AddrStr(dst)+"|"+string(fn))
		c, _ := snd.Request(model.CmdClassifierTypeRead, src, dst, false, []model.CmdType{cmd})
		d.end(w, op, c)
	case k < 9: // notify
		cmd := model.CmdType{MeasurementListData: &model.MeasurementListDataType{MeasurementData: []model.MeasurementDataType{{MeasurementId: util.Ptr(model.MeasurementIdType(w.Uniq()))}}}}
		op := d.begin(w, "notify", "")
		c, _ := snd.Notify(src, dst, cmd)
		d.end(w, op, c)
	case k < 10:
		cmd := model.CmdType{LoadControlLimitListData: &model.LoadControlLimitListDataType{}}
		op := d.begin(w, "write", "")
		c, _ := snd.Write(src, dst, cmd)
		d.end(w, op, c)
	case k < 11:
		hdr := p.Header(dst, src, model.CmdClassifierTypeRead, nil)
		op := d.begin(w, "reply", "")
		_ = snd.Reply(&hdr, src, model.CmdType{MeasurementListData: &model.MeasurementListDataType{}})
		d.end(w, op, nil)
	case k < 12:
		hdr := p.Header(dst, src, model.CmdClassifierTypeCall, util.Ptr(true))
		op := d.begin(w, "result", "")
		if w.T.Bool(1, 2, "result-error") {
			_ = snd.ResultError(&hdr, src, model.NewErrorTypeFromString("no"))
		} else {
			_ = snd.ResultSuccess(&hdr, src)
		}
		d.end(w, op, nil)
	case k < 13:
		// Subscribe / Bind are requests to node management and are de-duplicated like reads
		kind := "subscribe"
		if w.T.Bool(1, 2, "bind") {
			kind = "bind"
		}
		op := d.begin(w, "request", kind+"|"+AddrStr(src)+"|"+AddrStr(dst))
		var c *model.MsgCounterType
		if kind == "subscribe" {
			c, _ = snd.Subscribe(src, dst, model.FeatureTypeTypeMeasurement)
		} else {
			c, _ = snd.Bind(src, dst, model.FeatureTypeTypeMeasurement)
		}
		d.end(w, op, c)
	case k < 15: // a response arrives: referencing an earlier, unknown or already answered counter
		var ref uint64
		var cands []uint64
		for _, o := range d.ops {
			if o.kind == "request" && o.ctr != 0 {
				cands = append(cands, o.ctr)
			}
		}
		// (a result may also reference a notification - an error result for a notify, say: that
		// settles no request and the notification stays retrievable)
		var ncands []uint64
		for _, o := range d.ops {
			if o.kind == "notify" && o.ctr != 0 {
				ncands = append(ncands, o.ctr)
			}
		}
		if len(ncands) > 0 && w.T.Bool(1, 4, "ref-names-a-notification") {
			ref = ncands[w.T.Choose(len(ncands), "notify-ref")]
			w.Probe("c13-response-references-a-notification")
		} else if len(cands) > 0 && w.T.Bool(7, 8, "known-ref") {
			ref = cands[w.T.Choose(len(cands), "ref")]
		} else {
			ref = 100000 + uint64(w.T.Choose(5, "unknown-ref"))
		}
		op := d.begin(w, "response", "")
		op.ctr = ref
		snd.ProcessResponseForMsgCounterReference(util.Ptr(model.MsgCounterType(ref)))
		d.end(w, op, util.Ptr(model.MsgCounterType(ref)))
	default: // look a notification up
		var cands []uint64
		for _, o := range d.ops {
			if o.kind == "notify" && o.ctr != 0 {
				cands = append(cands, o.ctr)
			}
		}
		if len(cands) == 0 {
			return
		}
		// prefer old ones: those are the lookups that could disturb a recency-based cache
		c := cands[w.T.Choose(minInt(len(cands), 8), "lookup")]
		op := d.begin(w, "lookup", "")
		dg, err := snd.DatagramForMsgCounter(model.MsgCounterType(c))
		op.found = err == nil
		if err == nil {
			op.canon = CanonAny(model.Datagram{Datagram: dg})
		}
		d.end(w, op, util.Ptr(model.MsgCounterType(c)))
	}
	if n := spine.VerifReqCacheLen(d.snd); n > d.maxLen {
		d.maxLen = n
	}
}

func minInt(a, b int) int {
	if a < b {
		return a
	}
	return b
}

func c13Build(concurrent bool) func(w *World) {
	return func(w *World) {
		pr := BuildProto(w, ProtoOpt{Peers: 1, MinServers: 1, ClientFeats: true})
		d := &c13Data{pr: pr, p: pr.Peers[0]}
		w.scData = d
		p := d.p
		p.AutoAck = false
		rd := pr.L.Dev.RemoteDeviceForSki(p.Conn.Ski)
		d.snd = rd.Sender()
		local := pr.Clients[0]
		if concurrent {
			nt := 2 + w.T.Choose(5, "tasks")
			for i := 0; i < nt; i++ {
				w.Go(fmt.Sprintf("app%d", i), func() {
					n := 2 + w.T.Choose(8, "nops")
					for j := 0; j < n; j++ {
						d.doOne(w, local)
					}
				})
			}
		} else {
			w.Go("app0", func() {
				// long sequential histories: many unanswered requests, many notifications
				n := 20 + w.T.Choose(60, "nops")
				mode := w.T.Choose(3, "mode")
				for j := 0; j < n; j++ {
					d.doOne(w, local)
				}
				switch mode {
				case 1: // > 64 distinct unanswered requests
					if w.T.Bool(1, 2, "answered-requests-first") {
						// ... after many requests that were answered (seed C13-h: what is left of an
						// answered request must not count against the bound, nor against eviction)
						for j := 0; j < 60; j++ {
							dst := FAddr(p.Addr, []uint{1}, uint(300+j))
							op := d.begin(w, "request", AddrStr(dst)+"|answered-bulk")
							c, _ := d.snd.Request(model.CmdClassifierTypeRead, local.Address(), dst, false, []model.CmdType{{MeasurementListData: &model.MeasurementListDataType{}}})
							d.end(w, op, c)
							if c != nil {
								rop := d.begin(w, "response", "")
								rop.ctr = uint64(*c)
								d.snd.ProcessResponseForMsgCounterReference(c)
								d.end(w, rop, c)
							}
						}
						w.Probe("c13-many-answered-requests-first")
					}
					for j := 0; j < 90; j++ {
						dst := FAddr(p.Addr, []uint{1}, uint(100+j))
						op := d.begin(w, "request", AddrStr(dst)+"|bulk")
						c, _ := d.snd.Request(model.CmdClassifierTypeRead, local.Address(), dst, false, []model.CmdType{{MeasurementListData: &model.MeasurementListDataType{}}})
						d.end(w, op, c)
						if n := spine.VerifReqCacheLen(d.snd); n > d.maxLen {
							d.maxLen = n
						}
					}
					w.Probe("more-than-64-unanswered-requests")
				case 2: // > 100 notifications interleaved with lookups of old ones
					dst := FAddr(p.Addr, []uint{1}, pfMeasurementServer)
					for j := 0; j < 130; j++ {
						cmd := model.CmdType{MeasurementListData: &model.MeasurementListDataType{MeasurementData: []model.MeasurementDataType{{MeasurementId: util.Ptr(model.MeasurementIdType(w.Uniq()))}}}}
						op := d.begin(w, "notify", "")
						c, _ := d.snd.Notify(local.Address(), dst, cmd)
						d.end(w, op, c)
						if w.T.Bool(1, 3, "lookup-between") {
							// look up one of the last 100 notifications (an old one among them)
							var last []uint64
							for _, o := range d.ops {
								if o.kind == "notify" && o.ctr != 0 {
									last = append(last, o.ctr)
								}
							}
							if len(last) > 100 {
								last = last[len(last)-100:]
							}
							c := last[w.T.Choose(minInt(len(last), 10), "lookup-old")]
							op := d.begin(w, "lookup", "")
							dg, err := d.snd.DatagramForMsgCounter(model.MsgCounterType(c))
							op.found = err == nil
							if err == nil {
								op.canon = CanonAny(model.Datagram{Datagram: dg})
							}
							d.end(w, op, util.Ptr(model.MsgCounterType(c)))
						}
					}
					w.Probe("more-than-100-notifications")
				}
			})
		}
	}
}

//go:norace
func c13Check(w *World) {
	d := w.scData.(*c13Data)
	// 1. every datagram on the connection carries its own counter
	seen := map[uint64]*Sent{}
	for _, s := range d.p.Conn.Out {
		if s.D == nil || s.D.Header.MsgCounter == nil {
			w.Violate("C13/datagram-without-counter", "a datagram without msgCounter was written: %s", DescribeDatagram(s.D, s.Raw))
			continue
		}
		c := uint64(*s.D.Header.MsgCounter)
		if o := seen[c]; o != nil {
			w.Violate("C13/duplicate-message-counter", "msgCounter %d is carried by two datagrams: [%s] written by %s and [%s] written by %s", c, DescribeDatagram(o.D, o.Raw), o.Task, DescribeDatagram(s.D, s.Raw), s.Task)
		}
		seen[c] = s
	}
	// 2. counters increase in issue order whenever calls do not overlap
	var senders []*c13Op
	for _, o := range d.ops {
		if len(o.sent) > 0 && o.ret != 0 {
			senders = append(senders, o)
		}
	}
	for _, a := range senders {
		for _, b := range senders {
			if a.ret < b.invoke {
				ca, cb := uint64(*a.sent[len(a.sent)-1].D.Header.MsgCounter), uint64(*b.sent[0].D.Header.MsgCounter)
				if ca >= cb {
					w.Violate("C13/counters-not-increasing", "%s returned (ctr %d) before %s was invoked (ctr %d)", a.kind, ca, b.kind, cb)
				}
				w.Probe("c13-ordered-pair")
			} else if a != b && a.invoke < b.ret && b.invoke < a.ret {
				w.Probe("c13-overlapping-sends")
			}
		}
	}
	// 3. request de-duplication
	totalReq := 0
	for _, o := range d.ops {
		if o.kind == "request" {
			totalReq++
		}
	}
	for _, o := range d.ops {
		if o.kind != "request" || o.ret == 0 {
			continue
		}
		withheld := len(o.sent) == 0
		if !withheld {
			// the returned counter is the one of the datagram it sent
			if c := uint64(*o.sent[0].D.Header.MsgCounter); c != o.ctr {
				w.Violate("C13/request-returns-foreign-counter", "request %s sent ctr %d but returned %d", o.key, c, o.ctr)
			}
			// must it have been withheld? an identical request returned earlier, nothing referencing it
			// was ever processed before this call returned, and the bound cannot have forgotten it
			if totalReq <= 20 {
				for _, e := range d.ops {
					if e != o && e.kind == "request" && e.key == o.key && len(e.sent) > 0 && e.ret != 0 && e.ret < o.invoke && !d.answeredPossiblyBefore(e.ctr, o.ret) {
						w.Violate("C13/identical-unanswered-request-sent-again", "request %s was sent again (ctr %d) although the identical request ctr %d is unanswered", o.key, o.ctr, e.ctr)
					}
				}
			}
			continue
		}
		w.Probe("c13-request-withheld")
		// withheld: the returned counter must belong to an identical request that is unanswered
		var orig *c13Op
		for _, e := range d.ops {
			if e.kind == "request" && len(e.sent) > 0 && e.ctr == o.ctr && e.invoke < o.ret {
				orig = e
			}
		}
		if orig == nil {
			w.Violate("C13/withheld-without-original", "request %s was withheld and returned ctr %d which no earlier request was sent with", o.key, o.ctr)
			continue
		}
		if orig.key != o.key {
			w.Violate("C13/different-request-withheld", "request %s was withheld in favour of the different request %s (ctr %d)", o.key, orig.key, o.ctr)
		}
		if d.answeredCertainlyBefore(orig.ctr, o.invoke) {
			w.Violate("C13/request-withheld-after-response", "request %s was withheld although the response to the earlier request (ctr %d) had been processed before", o.key, orig.ctr)
			w.Probe("c13-response-then-request")
		}
	}
	// 4. bounded memory of unanswered requests
	if d.maxLen > 64 {
		w.Violate("C13/unanswered-request-memory-unbounded", "the sender remembered %d unanswered requests", d.maxLen)
	}
	// 5. the last 100 notifications are retrievable with the datagram that was sent
	var notifs []*c13Op
	for _, o := range d.ops {
		if o.kind == "notify" && len(o.sent) > 0 {
			notifs = append(notifs, o)
		}
	}
	// lookups during the run
	for _, l := range d.ops {
		if l.kind != "lookup" || l.ret == 0 {
			continue
		}
		// position of the looked-up notification among those whose call had returned when the lookup began
		idx, after := -1, 0
		for i, n := range notifs {
			if n.ctr == l.ctr {
				idx = i
			}
		}
		if idx < 0 {
			continue
		}
		for _, n := range notifs[idx+1:] {
			if n.invoke < l.ret {
				after++
			}
		}
		if after < 100 && notifs[idx].ret < l.invoke {
			if !l.found {
				w.Violate("C13/recent-notification-not-retrievable", "notification ctr %d (only %d younger notifications) could not be retrieved", l.ctr, after)
			} else if want := CanonJSON(notifs[idx].sent[0].Raw); l.canon != want {
				w.Violate("C13/notification-lookup-returns-other-datagram", "lookup of ctr %d returned %s, sent was %s", l.ctr, l.canon, want)
			}
			w.Probe("c13-lookup-checked")
		}
	}
	// final sweep over the last 100
	if len(notifs) > 0 {
		last := notifs
		if len(last) > 100 {
			last = last[len(last)-100:]
		}
		for _, n := range last {
			dg, err := d.snd.DatagramForMsgCounter(model.MsgCounterType(n.ctr))
			if err != nil {
				w.Violate("C13/recent-notification-not-retrievable", "notification ctr %d is among the last %d notifications but cannot be retrieved", n.ctr, len(last))
				break
			}
			if c, want := CanonAny(model.Datagram{Datagram: dg}), CanonJSON(n.sent[0].Raw); c != want {
				w.Violate("C13/notification-lookup-returns-other-datagram", "lookup of ctr %d returned %s, sent was %s", n.ctr, c, want)
				break
			}
		}
		w.Probe("c13-last-notifications-swept")
	}
	w.State(fmt.Sprint(len(d.ops), d.maxLen))
}

// answeredPossiblyBefore: a response referencing ctr was invoked before seq.
//
//go:norace
func (d *c13Data) answeredPossiblyBefore(ctr, seq uint64) bool {
	for _, o := range d.ops {
		if o.kind == "response" && o.ctr == ctr && o.invoke < seq {
			return true
		}
	}
	return false
}

// answeredCertainlyBefore: a response referencing ctr had returned before seq.
//
//go:norace
func (d *c13Data) answeredCertainlyBefore(ctr, seq uint64) bool {
	for _, o := range d.ops {
		if o.kind == "response" && o.ctr == ctr && o.ret != 0 && o.ret < seq {
			return true
		}
	}
	return false
}

func init() {
	Register(&Scenario{Prop: "C13", Name: "concurrent-senders", NonTrivial: []string{"c13-overlapping-sends"}, Build: c13Build(true), Check: c13Check, Weight: 3})
	Register(&Scenario{Prop: "C13", Name: "sequential-histories", NonTrivial: []string{"c13-request-withheld", "more-than-100-notifications"}, Build: c13Build(false), Check: c13Check, Weight: 1})
}
