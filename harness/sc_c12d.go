package harness

import (
	"fmt"
	"time"

	"github.com/enbility/spine-go/api"
	"github.com/enbility/spine-go/model"
	"github.com/enbility/spine-go/util"

	"verifsim/simrt"
)

// C12, variant "repeated-counter" (seed C12-e): after a write has got its outcome the peer sends
// a write with the same message counter again on the same connection (a retransmission, or a
// peer that does not count properly) - up to three rounds. Each arrival is presented to every
// callback and is a write of its own: it is applied if and only if every callback approves *this*
// arrival before *its* deadline; what the callbacks said about the earlier arrival counts for
// nothing. Verdicts per round and callback: approve, deny, silent (fault app.silent).

type c12dRound struct {
	verdicts  []string
	presented []int
	given     int // verdicts handed to the stack
	canon     string
	start     int // len(Conn.Out) when the round began
}

func init() {
	Register(&Scenario{
		Prop: "C12", Name: "repeated-counter", DeadlockDirected: true, Weight: 1,
		NonTrivial: []string{"c12d-later-round-decided"},
		Build: func(w *World) {
			// verdicts racing with the deadline are the main variant's subject: here the clock only
			// moves when nothing else can run (no task.stall), so a verdict that is given is in time
			w.advNum = 0
			pr := BuildProto(w, ProtoOpt{Peers: 1, MinServers: 1, ServerTypes: []model.FeatureTypeType{model.FeatureTypeTypeLoadControl}})
			p := pr.Peers[0]
			sf := pr.Servers[0]
			ncb := 2 + w.T.Choose(2, "callbacks")
			timeout := time.Second
			sf.F.SetWriteApprovalTimeout(timeout)
			fn := sf.Funcs[0]
			info := fnByName[fn.Fn]
			nr := 2 + w.T.Choose(2, "rounds")
			sameData := w.T.Bool(1, 2, "same-payload-every-round")
			var rounds []*c12dRound
			var cmds []model.CmdType
			for r := 0; r < nr; r++ {
				rd := &c12dRound{presented: make([]int, ncb)}
				// most rounds: everybody approves but one callback, which approves, denies or says nothing
				odd := w.T.Choose(ncb, "odd-callback")
				for cb := 0; cb < ncb; cb++ {
					v := "approve"
					if cb == odd {
						v = []string{"approve", "deny", "silent"}[w.T.Choose(3, "verdict")]
					} else if w.T.Bool(1, 6, "another-verdict") {
						v = []string{"deny", "silent"}[w.T.Choose(2, "verdict2")]
					}
					rd.verdicts = append(rd.verdicts, v)
				}
				if r == 0 || !sameData {
					data := w.GenSimpleList(info, 1)
					w.ForceUnique(info, data)
					cmd := model.CmdType{}
					SetCmdData(&cmd, fn.Fn, data)
					cmds = append(cmds, cmd)
					rd.canon = CanonAny(data)
				} else {
					cmds = append(cmds, cmds[0])
					rd.canon = rounds[0].canon
				}
				rounds = append(rounds, rd)
			}
			cur := -1
			for cb := 0; cb < ncb; cb++ {
				cb := cb
				_ = sf.F.AddWriteApprovalCallback(func(msg *api.Message) {
					if cur < 0 {
						w.Violate("C12/unknown-write-presented", "callback %d was given a write before the peer sent one", cb)
						return
					}
					r := cur
					rd := rounds[r]
					rd.presented[cb]++
					v := rd.verdicts[cb]
					w.Logf("round %d presented to callback %d (%s)", r, cb, v)
					if v == "silent" {
						w.Fault("app.silent")
						return
					}
					for k := w.T.Choose(5, "verdict-yields"); k > 0; k-- {
						w.Yield("thinking")
					}
					e := model.ErrorType{}
					if v == "deny" {
						e = *model.NewErrorTypeFromString("denied by application")
					}
					w.Logf("invoke verdict %s of callback %d for round %d", v, cb, r)
					sf.F.ApproveOrDenyWrite(msg, e)
					w.Logf("return verdict %s of callback %d for round %d", v, cb, r)
					rd.given++
				})
			}
			w.Go("script:"+p.Name, func() {
				p.AwaitDiscovery()
				cf := (&actor{w: w, pr: pr}).clientFor(p, sf)
				p.Await(p.SendBind(cf, sf.Address(), sf.Type, false, "bind"))
				before := CanonAny(sf.F.DataCopy(fn.Fn))
				var ctr *model.MsgCounterType
				for r := 0; r < nr; r++ {
					rd := rounds[r]
					cur = r
					rd.start = len(p.Conn.Out)
					h := p.Header(cf.Address(), sf.Address(), model.CmdClassifierTypeWrite, util.Ptr(true))
					if ctr == nil {
						ctr = h.MsgCounter
					} else {
						h.MsgCounter = ctr // the same counter again
					}
					w.Logf("round %d: write ctr=%d verdicts=%v", r, uint64(*ctr), rd.verdicts)
					raw := p.Send(model.DatagramType{Header: h, Payload: model.PayloadType{Cmd: []model.CmdType{cmds[r]}}}, fmt.Sprintf("write-round-%d", r))
					_ = raw
					simrt.WaitUntil("round-handled", func() bool {
						n := 0
						for _, d := range p.Conn.Del {
							if d.Done && d.D != nil && d.D.Header.MsgCounter != nil && *d.D.Header.MsgCounter == *ctr &&
								d.D.Header.CmdClassifier != nil && *d.D.Header.CmdClassifier == model.CmdClassifierTypeWrite {
								n++
							}
						}
						return n > r || p.Conn.Closed
					})
					want := 0
					allApprove := true
					for _, v := range rd.verdicts {
						if v != "silent" {
							want++
						}
						if v != "approve" {
							allApprove = false
						}
					}
					simrt.WaitUntil("verdicts-given", func() bool { return rd.given >= want })
					// whatever is still open is decided by the deadline
					w.Sleep(timeout + 10*time.Millisecond)
					for cb, n := range rd.presented {
						if n != 1 {
							w.Violate("C12/repeated/write-presented-not-once", "round %d: the write was presented %d times to callback %d", r, n, cb)
							return
						}
					}
					nOK, nErr := 0, 0
					for _, s := range p.Conn.Out[rd.start:] {
						if s.D == nil || s.D.Header.MsgCounterReference == nil || *s.D.Header.MsgCounterReference != *ctr {
							continue
						}
						if isRes, e := IsResult(s); isRes {
							if e == 0 {
								nOK++
							} else {
								nErr++
							}
						}
					}
					now := CanonAny(sf.F.DataCopy(fn.Fn))
					shape := fmt.Sprintf("round%d", r)
					if r > 0 {
						shape = "later-round"
					}
					switch {
					case nOK+nErr != 1:
						w.Violate("C12/repeated/several-or-no-outcomes/"+shape, "round %d (verdicts %v): %d success and %d error results", r, rd.verdicts, nOK, nErr)
						return
					case allApprove && (nOK != 1 || now != rd.canon):
						w.Violate("C12/repeated/unanimous-approval-not-applied/"+shape, "round %d (verdicts %v): %d success results, data %s, written %s", r, rd.verdicts, nOK, now, rd.canon)
						return
					case !allApprove && (nErr != 1 || now != before):
						w.Violate("C12/repeated/partly-approved-write-applied/"+shape, "round %d (verdicts %v; earlier rounds %s): %d error results, data before the round %s, now %s", r, rd.verdicts, c12dEarlier(rounds[:r]), nErr, before, now)
						return
					}
					before = now
					if r > 0 {
						w.Probe("c12d-later-round-decided")
						if !allApprove {
							w.Probe("c12d-later-round-refused")
						}
					}
				}
				w.State(before)
			})
		},
	})
}

//go:norace
func c12dEarlier(r []*c12dRound) string {
	s := ""
	for _, x := range r {
		s += fmt.Sprint(x.verdicts)
	}
	return s
}
