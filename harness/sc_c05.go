package harness

import (
	"encoding/json"
	"fmt"
	"reflect"

	"github.com/enbility/spine-go/model"
	"github.com/enbility/spine-go/util"

	"verifsim/simrt"
)

// C05 — no inbound byte sequence can crash or wedge the stack.
// The oracle for crashes and wedges is generic (every task boundary records panics, every run
// ends with the deadlock check); this scenario supplies the inputs and the "still served" probe.

type c05Data struct {
	pr *Proto
}

// genValid builds one valid datagram of a random kind from peer p.
//
//go:norace
func c05GenValid(w *World, pr *Proto, p *Peer) (model.DatagramType, string) {
	ents := p.Ents
	var e *PEnt
	if len(ents) > 1 {
		e = ents[1+w.T.Choose(len(ents)-1, "src-entity")]
	} else {
		e = ents[0]
	}
	pf := e.Feats[w.T.Choose(len(e.Feats), "src-feature")]
	sf := pr.Servers[w.T.Choose(len(pr.Servers), "dst-server")]
	var lf *LFeat = sf
	if len(pr.Clients) > 0 && w.T.Bool(1, 3, "dst-client") {
		lf = pr.Clients[w.T.Choose(len(pr.Clients), "dst-client-idx")]
	}
	ack := []*bool{nil, util.Ptr(true), util.Ptr(false)}[w.T.Choose(3, "ack")]
	mk := func(src, dst *model.FeatureAddressType, cl model.CmdClassifierType, cmd model.CmdType, tag string) (model.DatagramType, string) {
		h := p.Header(src, dst, cl, ack)
		if cl == model.CmdClassifierTypeReply || cl == model.CmdClassifierTypeResult || w.T.Bool(1, 8, "stray-ref") {
			h.MsgCounterReference = util.Ptr(model.MsgCounterType(1 + w.T.Choose(6, "ref")))
		}
		return model.DatagramType{Header: h, Payload: model.PayloadType{Cmd: []model.CmdType{cmd}}}, tag
	}
	// data-carrying commands for a list function with a random filter shape
	var listCmd0 func(fn model.FunctionType) model.CmdType
	listCmd := func(fn model.FunctionType) model.CmdType {
		cmd := listCmd0(fn)
		if cmd.Function != nil && w.T.Bool(1, 5, "function-element-inconsistent") {
			// the optional function element disagrees with the data element the cmd carries:
			// it names another function of the sending or of the addressed feature, nothing, or
			// something unknown
			var others []model.FunctionType
			for _, t := range []model.FeatureTypeType{pf.Type, lf.Type} {
				for _, fi := range fnTable[t] {
					if fi.Fn != fn {
						others = append(others, fi.Fn)
					}
				}
			}
			switch k := w.T.Choose(6, "function-element"); {
			case k < 4 && len(others) > 0:
				cmd.Function = util.Ptr(others[w.T.Choose(len(others), "other-function")])
				w.Probe("c05-function-element-names-another-function")
			case k == 4:
				cmd.Function = util.Ptr(model.FunctionType(""))
			default:
				cmd.Function = util.Ptr(model.FunctionType("noSuchFunctionData"))
			}
		}
		return cmd
	}
	listCmd0 = func(fn model.FunctionType) model.CmdType {
		info := fnByNameGeneric(fn)
		cmd := model.CmdType{}
		data := w.GenData(info)
		SetCmdData(&cmd, fn, data)
		if !info.IsList {
			// filters make no sense for a function that is not a list - a peer may send them anyway
			switch w.T.Choose(6, "filter-on-non-list") {
			case 0:
				cmd.Function = util.Ptr(fn)
				cmd.Filter = []model.FilterType{{CmdControl: &model.CmdControlType{Delete: &model.ElementTagType{}}}}
				w.Probe("c05-delete-filter-on-non-list-function")
			case 1:
				cmd.Function = util.Ptr(fn)
				cmd.Filter = []model.FilterType{*model.NewFilterTypePartial()}
			case 2:
				cmd.Function = util.Ptr(fn)
				cmd.Filter = []model.FilterType{{CmdControl: &model.CmdControlType{Delete: &model.ElementTagType{}}}, *model.NewFilterTypePartial()}
			}
			return cmd
		}
		ids := []uint{uint(w.T.Choose(3, "sel-id")), 0, 0}
		if w.T.Bool(1, 4, "wide-selector") {
			// a selector that sets every member it has (also those whose namesake in the stored
			// items is a list) against whatever is stored
			kind := []string{"partial", "delete"}[w.T.Choose(2, "wide-kind")]
			if sel := w.GenSelectorWide(info, ids); sel != nil {
				cmd.Function = util.Ptr(fn)
				cmd.Filter = []model.FilterType{*MakeFilter(info, kind, sel, nil)}
				w.Probe("c05-wide-selector")
				return cmd
			}
		}
		switch w.T.Choose(7, "filter-shape") {
		case 1:
			cmd.Function = util.Ptr(fn)
			cmd.Filter = []model.FilterType{*MakeFilter(info, "partial", nil, nil)}
		case 2:
			cmd.Function = util.Ptr(fn)
			cmd.Filter = []model.FilterType{*MakeFilter(info, "partial", GenSelector(info, ids), nil)}
		case 3:
			cmd.Function = util.Ptr(fn)
			cmd.Filter = []model.FilterType{*MakeFilter(info, "delete", GenSelector(info, ids), nil)}
		case 4:
			cmd.Function = util.Ptr(fn)
			cmd.Filter = []model.FilterType{*MakeFilter(info, "delete", nil, firstElements(info))}
		case 5:
			cmd.Function = util.Ptr(fn)
			cmd.Filter = []model.FilterType{*MakeFilter(info, "delete", GenSelector(info, ids), firstElements(info)), *MakeFilter(info, "partial", nil, nil)}
		case 6:
			// identifier-less item with a selector and empty data list
			cmd = model.CmdType{Function: util.Ptr(fn), Filter: []model.FilterType{*MakeFilter(info, "partial", GenSelector(info, ids), nil)}}
			SetCmdData(&cmd, fn, reflect.New(info.DataType).Interface())
		}
		return cmd
	}
	anyFn := func(t model.FeatureTypeType) model.FunctionType {
		fns := fnTable[t]
		if len(fns) == 0 {
			return model.FunctionTypeMeasurementListData
		}
		return fns[w.T.Choose(len(fns), "fn")].Fn
	}
	kind := w.T.Choose(14, "valid-kind")
	if kind >= 3 && kind <= 6 && w.T.Bool(1, 3, "node-management-as-client") {
		// what real devices do first: their node management subscribes to ours (the only
		// registry entry that can be made before the discovery reply)
		nmT := model.FeatureTypeTypeNodeManagement
		ca, sa := p.NM().Address(), p.LocalNM()
		if w.T.Bool(1, 3, "omit-device") {
			ca.Device = nil
		}
		var cmd model.CmdType
		tag := ""
		switch kind {
		case 3:
			tag = "subscribe-nm"
			cmd.NodeManagementSubscriptionRequestCall = &model.NodeManagementSubscriptionRequestCallType{SubscriptionRequest: &model.SubscriptionManagementRequestCallType{ClientAddress: ca, ServerAddress: sa, ServerFeatureType: &nmT}}
		case 4:
			tag = "unsubscribe-nm"
			cmd.NodeManagementSubscriptionDeleteCall = &model.NodeManagementSubscriptionDeleteCallType{SubscriptionDelete: &model.SubscriptionManagementDeleteCallType{ClientAddress: ca, ServerAddress: sa}}
		case 5:
			tag = "bind-nm"
			cmd.NodeManagementBindingRequestCall = &model.NodeManagementBindingRequestCallType{BindingRequest: &model.BindingManagementRequestCallType{ClientAddress: ca, ServerAddress: sa, ServerFeatureType: &nmT}}
		default:
			tag = "unbind-nm"
			cmd.NodeManagementBindingDeleteCall = &model.NodeManagementBindingDeleteCallType{BindingDelete: &model.BindingManagementDeleteCallType{ClientAddress: ca, ServerAddress: sa}}
		}
		w.Probe("c05-node-management-registry-call")
		return mk(p.NM().Address(), p.LocalNM(), model.CmdClassifierTypeCall, cmd, tag)
	}
	switch kind {
	case 0: // discovery reply
		return mk(p.NM().Address(), p.LocalNM(), model.CmdClassifierTypeReply, model.CmdType{NodeManagementDetailedDiscoveryData: p.DiscoveryData(nil, nil, true)}, "dd-reply-again")
	case 1: // discovery notify, partial add or remove of some entity
		st := model.NetworkManagementStateChangeTypeAdded
		if w.T.Bool(1, 2, "removed") {
			st = model.NetworkManagementStateChangeTypeRemoved
		}
		cmd := model.CmdType{Function: util.Ptr(model.FunctionTypeNodeManagementDetailedDiscoveryData), Filter: []model.FilterType{*model.NewFilterTypePartial()},
			NodeManagementDetailedDiscoveryData: p.DiscoveryData([]*PEnt{e}, &st, true)}
		return mk(p.NM().Address(), p.LocalNM(), model.CmdClassifierTypeNotify, cmd, "dd-notify-partial")
	case 2: // full discovery notify
		return mk(p.NM().Address(), p.LocalNM(), model.CmdClassifierTypeNotify, model.CmdType{NodeManagementDetailedDiscoveryData: p.DiscoveryData(nil, nil, true)}, "dd-notify-full")
	case 3:
		ft := sf.Type
		cmd := model.CmdType{NodeManagementSubscriptionRequestCall: &model.NodeManagementSubscriptionRequestCallType{SubscriptionRequest: &model.SubscriptionManagementRequestCallType{
			ClientAddress: pf.Address(), ServerAddress: sf.Address(), ServerFeatureType: &ft}}}
		return mk(p.NM().Address(), p.LocalNM(), model.CmdClassifierTypeCall, cmd, "subscribe")
	case 4:
		cmd := model.CmdType{NodeManagementSubscriptionDeleteCall: &model.NodeManagementSubscriptionDeleteCallType{SubscriptionDelete: &model.SubscriptionManagementDeleteCallType{
			ClientAddress: pf.Address(), ServerAddress: sf.Address()}}}
		return mk(p.NM().Address(), p.LocalNM(), model.CmdClassifierTypeCall, cmd, "unsubscribe")
	case 5:
		ft := sf.Type
		cmd := model.CmdType{NodeManagementBindingRequestCall: &model.NodeManagementBindingRequestCallType{BindingRequest: &model.BindingManagementRequestCallType{
			ClientAddress: pf.Address(), ServerAddress: sf.Address(), ServerFeatureType: &ft}}}
		return mk(p.NM().Address(), p.LocalNM(), model.CmdClassifierTypeCall, cmd, "bind")
	case 6:
		cmd := model.CmdType{NodeManagementBindingDeleteCall: &model.NodeManagementBindingDeleteCallType{BindingDelete: &model.BindingManagementDeleteCallType{
			ClientAddress: pf.Address(), ServerAddress: sf.Address()}}}
		return mk(p.NM().Address(), p.LocalNM(), model.CmdClassifierTypeCall, cmd, "unbind")
	case 7: // read
		fn := anyFn(sf.Type)
		cmd := model.CmdType{}
		SetCmdData(&cmd, fn, reflect.New(fnByNameGeneric(fn).DataType).Interface())
		if w.T.Bool(1, 3, "read-with-filter") {
			info := fnByNameGeneric(fn)
			if info.IsList {
				cmd.Function = util.Ptr(fn)
				cmd.Filter = []model.FilterType{*MakeFilter(info, "partial", GenSelector(info, []uint{0, 0, 0}), firstElements(info))}
			}
		}
		return mk(pf.Address(), sf.Address(), model.CmdClassifierTypeRead, cmd, "read")
	case 8, 9: // reply / notify from the peer's feature to a local feature
		cl := model.CmdClassifierTypeNotify
		if w.T.Bool(1, 2, "reply") {
			cl = model.CmdClassifierTypeReply
		}
		fnT := pf.Type
		tag := string(cl) + "-data"
		if w.T.Bool(1, 4, "function-foreign-to-the-source-feature") {
			// data of a function that the source feature's type does not have
			fnT = allFeatureTypes[w.T.Choose(len(allFeatureTypes), "foreign-type")]
			tag += "-foreign-function"
			w.Probe("c05-foreign-function-in-notify-or-reply")
		}
		return mk(pf.Address(), lf.Address(), cl, listCmd(anyFn(fnT)), tag)
	case 10, 11: // write
		return mk(pf.Address(), sf.Address(), model.CmdClassifierTypeWrite, listCmd(anyFn(sf.Type)), "write")
	case 12: // result
		cmd := model.CmdType{ResultData: &model.ResultDataType{ErrorNumber: util.Ptr(model.ErrorNumberType(w.T.Choose(3, "errno"))), Description: util.Ptr(model.DescriptionType("x"))}}
		return mk(pf.Address(), lf.Address(), model.CmdClassifierTypeResult, cmd, "result")
	default: // node management data: use cases, destination list, subscription/binding listing calls
		switch w.T.Choose(5, "nm-kind") {
		case 0:
			uc := &model.NodeManagementUseCaseDataType{}
			uc.AddUseCaseSupport(*FAddr(p.Addr, e.Addr, 0), model.UseCaseActorTypeCEM, model.UseCaseNameTypeLimitationOfPowerConsumption, "1.0.0", "r", true, []model.UseCaseScenarioSupportType{1, 2})
			return mk(p.NM().Address(), p.LocalNM(), model.CmdClassifierTypeReply, model.CmdType{NodeManagementUseCaseData: uc}, "usecase-reply")
		case 1:
			return mk(p.NM().Address(), p.LocalNM(), model.CmdClassifierTypeRead, model.CmdType{NodeManagementUseCaseData: &model.NodeManagementUseCaseDataType{}}, "usecase-read")
		case 2:
			return mk(p.NM().Address(), p.LocalNM(), model.CmdClassifierTypeRead, model.CmdType{NodeManagementDestinationListData: &model.NodeManagementDestinationListDataType{}}, "destlist-read")
		case 3:
			return mk(p.NM().Address(), p.LocalNM(), model.CmdClassifierTypeCall, model.CmdType{NodeManagementSubscriptionData: &model.NodeManagementSubscriptionDataType{}}, "sub-listing")
		default:
			return mk(p.NM().Address(), p.LocalNM(), model.CmdClassifierTypeCall, model.CmdType{NodeManagementBindingData: &model.NodeManagementBindingDataType{}}, "bind-listing")
		}
	}
}

// firstElements names the first non-key field the elements type knows.
//
//go:norace
func firstElements(info FnInfo) any {
	if info.ItemType == nil {
		return nil
	}
	for _, f := range shapeOf(info.ItemType).Fields {
		if f.Class == fcKey {
			continue
		}
		if el := GenElements(info, []string{f.Name}); el != nil {
			return el
		}
	}
	return nil
}

func init() {
	Register(&Scenario{
		Prop: "C05", Name: "mutated-traffic", DeadlockDirected: true,
		NonTrivial: []string{"c05-mutated-message-handled"},
		Build: func(w *World) {
			w.GenStructs = true
			pr := BuildProto(w, ProtoOpt{Peers: 2, MinServers: 2, ClientFeats: true, NoConnect: true})
			d := &c05Data{pr: pr}
			w.scData = d
			w.FaultRate = map[string]int{"net.corrupt": []int{0, 4, 16}[w.T.Choose(3, "net-corrupt-rate")], "net.dup": []int{0, 4}[w.T.Choose(2, "dup-rate")]}
			bad := pr.Peers[0]
			// connection state: in a third of the runs the corrupting peer does not answer the discovery read
			if w.T.Bool(1, 3, "before-discovery") {
				bad.AutoDD = false
				w.Probe("c05-messages-before-discovery")
			}
			for _, p := range pr.Peers {
				p.Conn = nil
				p.Connect()
			}
			w.Go("script:"+bad.Name, func() {
				if bad.AutoDD {
					bad.AwaitDiscovery()
				}
				n := 4 + w.T.Choose(16, "nmsgs")
				for i := 0; i < n; i++ {
					dg, tag := c05GenValid(w, pr, bad)
					raw, err := json.Marshal(model.Datagram{Datagram: dg})
					if err != nil {
						continue
					}
					if w.T.Bool(3, 4, "mutate") {
						var how string
						if w.T.Bool(3, 4, "structure") {
							raw, how = MutateStructure(w, raw)
						} else {
							raw, how = MutateBytes(w, raw)
						}
						if raw == nil {
							continue
						}
						tag += "~" + how
						w.Probe("c05-mutated-message-sent")
					}
					bad.SendRaw(raw, tag)
					if w.T.Bool(1, 8, "reconnect") && w.FaultsOn {
						w.Fault("conn.restart")
						pr.L.Disconnect(bad.Name)
						bad.Connect()
						if bad.AutoDD {
							bad.AwaitDiscovery()
						}
					}
					if w.T.Bool(1, 2, "await-queue") {
						simrt.WaitUntil("queue-empty", func() bool { return len(bad.Conn.Queue) == 0 && !bad.Conn.Handling })
					}
				}
			})
			// the application changes its own tree meanwhile (announcements to subscribers run
			// concurrently with whatever the malformed traffic makes the stack do)
			if w.T.Bool(1, 2, "app-changes-tree") {
				w.Go("app-tree", func() {
					for i := 1 + w.T.Choose(3, "tree-rounds"); i > 0; i-- {
						for k := w.T.Choose(8, "tree-delay"); k > 0; k-- {
							w.Yield("tree-delay")
						}
						extra := c07GenLocalEntity(w, pr.L, []uint{9})
						pr.L.AddEntity(extra)
						w.Yield("tree")
						// (descriptions and functions of announced features change while discovery reads,
						// well-formed or not, are answered: seed C05-g)
						for k := 1 + w.T.Choose(3, "describe-ops"); k > 0; k-- {
							if sf := pr.Servers[w.T.Choose(len(pr.Servers), "described-feature")]; w.T.Bool(1, 2, "describe") {
								sf.F.SetDescriptionString(fmt.Sprintf("description-%d", w.Uniq()))
							} else {
								sf.F.SetDescription(nil)
							}
							w.Yield("describe")
						}
						pr.L.RemoveEntity(extra)
						w.Probe("c05-app-changed-tree")
					}
				})
			}
			good := pr.Peers[1]
			w.Go("script:"+good.Name, func() {
				good.AwaitDiscovery()
				n := 2 + w.T.Choose(6, "nmsgs")
				for i := 0; i < n; i++ {
					if w.T.Bool(1, 4, "discovery-read") {
						cmd := model.CmdType{NodeManagementDetailedDiscoveryData: &model.NodeManagementDetailedDiscoveryDataType{}}
						good.SendCmd(good.NM().Address(), good.LocalNM(), model.CmdClassifierTypeRead, nil, cmd, "read-discovery")
						w.Probe("c05-discovery-read-during-traffic")
						continue
					}
					dg, tag := c05GenValid(w, pr, good)
					good.Send(dg, tag)
				}
			})
		},
		Settle: func(w *World) {
			d := w.scData.(*c05Data)
			for _, p := range d.pr.Peers {
				for _, del := range p.Conn.Del {
					if del.Done {
						w.Probe("c05-mutated-message-handled")
					}
				}
				if p.Conn != nil && !p.Conn.Closed {
					cmd := model.CmdType{NodeManagementDetailedDiscoveryData: &model.NodeManagementDetailedDiscoveryDataType{}}
					p.probeCtr = p.SendCmd(p.NM().Address(), p.LocalNM(), model.CmdClassifierTypeRead, nil, cmd, "probe-read")
				}
			}
		},
		Check: func(w *World) {
			d := w.scData.(*c05Data)
			for _, p := range d.pr.Peers {
				if p.probeCtr == 0 || p.Conn.Closed {
					continue
				}
				n := 0
				for _, s := range p.Responses(p.probeCtr) {
					if Classifier(s) == "reply" && !s.Stale && s.D.Payload.Cmd[0].NodeManagementDetailedDiscoveryData != nil {
						n++
					}
				}
				// (a mutated datagram may have removed the peer's own node management feature from the
				// remote view - then the stack cannot know the sender any more and stays silent; that
				// is the peer's doing, not a wedge)
				rd := d.pr.L.Dev.RemoteDeviceForSki(p.Conn.Ski)
				known := rd != nil && rd.FeatureByAddress(FAddr("", []uint{0}, 0)) != nil
				if n != 1 && known {
					w.Violate("C05/not-served-after-malformed-input", "%s got %d replies to a valid discovery read after the malformed traffic", p.Name, n)
				}
				if known {
					w.Probe("c05-probe-read-answered")
				}
			}
			w.State(fmt.Sprint(len(d.pr.Peers[0].Conn.Del)))
		},
	})
}
