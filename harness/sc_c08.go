package harness

import (
	"fmt"
	"reflect"
	"sort"
	"strings"

	"github.com/enbility/spine-go/api"
	"github.com/enbility/spine-go/model"
	"github.com/enbility/spine-go/util"

	"verifsim/simrt"
)

// C08 — subscriptions: exact registry and exactly-once notification fan-out.

// dataOp is one local data change issued through the API.
type dataOp struct {
	feat   *LFeat
	fn     model.FunctionType
	how    string
	canon  string // canonical JSON of the data handed to the API
	invoke uint64
	ret    uint64
	task   string
}

// subscribedState: 1 = certainly subscribed during [i,r], 0 = certainly not, -1 = undecided
// (a successful registry operation on the key overlaps the window).
//
//go:norace
func subscribedState(ops []RegOp, fam string, key RegKey, i, r uint64) int {
	matches := func(o RegOp) bool {
		if !o.OK {
			return false
		}
		switch o.Kind {
		case fam, "un" + fam:
			return o.Peer == key.Peer && o.Client == key.Client && o.Server == key.Server
		case "drop":
			return o.Peer == key.Peer
		case "entdrop":
			return o.Peer == key.Peer && strings.HasPrefix(key.Client, o.Client)
		}
		return false
	}
	adds := func(o RegOp) bool { return o.Kind == "sub" || o.Kind == "bind" }
	// a request that was being handled while its own connection (or entity) was removed may
	// leave its entry behind for good (in flight, DESIGN 10.4): from then on the key is undecided
	for _, o := range ops {
		if !matches(o) || !adds(o) || o.Call >= r {
			continue
		}
		for _, x := range ops {
			if (x.Kind == "drop" || x.Kind == "entdrop") && matches(x) && o.Call < x.Return && x.Call < o.Return {
				return -1
			}
		}
	}
	var last *RegOp
	for idx := range ops {
		o := ops[idx]
		if !matches(o) {
			continue
		}
		if o.Call < r && o.Return > i {
			return -1
		}
		if o.Return <= i && (last == nil || o.Return >= last.Return) {
			last = &ops[idx]
		}
	}
	if last == nil {
		return 0
	}
	// an operation of the opposite polarity that overlapped the last one leaves the outcome open
	for _, o := range ops {
		if matches(o) && adds(o) != adds(*last) && o.Call < last.Return && last.Call < o.Return {
			return -1
		}
	}
	if adds(*last) {
		return 1
	}
	return 0
}

// issueListing asks node management for the subscription (or binding) list.
//
//go:norace
func (rs *regScript) issueListing(p *Peer) *regIssued {
	var cmd model.CmdType
	if rs.kind == "sub" {
		cmd = model.CmdType{NodeManagementSubscriptionData: &model.NodeManagementSubscriptionDataType{}}
	} else {
		cmd = model.CmdType{NodeManagementBindingData: &model.NodeManagementBindingDataType{}}
	}
	ctr := p.SendCmd(p.NM().Address(), p.LocalNM(), model.CmdClassifierTypeCall, nil, cmd, "list")
	ri := &regIssued{peer: p, ctr: ctr, op: RegOp{Kind: "list", Peer: p.Name, Desc: "listing-call"}}
	rs.listings = append(rs.listings, ri)
	return ri
}

// collectListings turns listing calls into read operations of the history.
//
//go:norace
func (rs *regScript) collectListings(prop string) []RegOp {
	w := rs.w
	var ops []RegOp
	for _, ri := range rs.listings {
		for _, d := range ri.peer.DeliveriesOf(ri.ctr) {
			if !d.Done {
				continue
			}
			var replies []*Sent
			for _, s := range ri.peer.RespDuring(d) {
				if Classifier(s) == "reply" {
					replies = append(replies, s)
				}
			}
			if len(replies) != 1 {
				w.Violate(prop+"/listing-reply-count", "listing call %s#%d got %d replies", ri.peer.Name, ri.ctr, len(replies))
				continue
			}
			cmd := replies[0].D.Payload.Cmd[0]
			var l []string
			ids := map[uint64]bool{}
			if rs.kind == "sub" && cmd.NodeManagementSubscriptionData != nil {
				for _, e := range cmd.NodeManagementSubscriptionData.SubscriptionEntry {
					l = append(l, RegKey{ri.peer.Name, AddrStr(e.ClientAddress), AddrStr(e.ServerAddress)}.String())
					if e.SubscriptionId != nil {
						if ids[uint64(*e.SubscriptionId)] {
							w.Violate(prop+"/duplicate-id-in-listing", "id %d listed twice", *e.SubscriptionId)
						}
						ids[uint64(*e.SubscriptionId)] = true
					}
				}
			} else if cmd.NodeManagementBindingData != nil {
				for _, e := range cmd.NodeManagementBindingData.BindingEntry {
					l = append(l, RegKey{ri.peer.Name, AddrStr(e.ClientAddress), AddrStr(e.ServerAddress)}.String())
					if e.BindingId != nil {
						if ids[uint64(*e.BindingId)] {
							w.Violate(prop+"/duplicate-id-in-listing", "id %d listed twice", *e.BindingId)
						}
						ids[uint64(*e.BindingId)] = true
					}
				}
			}
			sort.Strings(l)
			op := ri.op
			op.Listing = strings.Join(l, ";")
			op.OK = true
			op.Call, op.Return = d.Begin, d.End
			ops = append(ops, op)
			w.Probe("listing-call-answered")
		}
	}
	return ops
}

//go:norace
func subscriptionListing(n *Node, p *Peer) (string, []uint64) {
	rd := n.Dev.RemoteDeviceForSki(p.Conn.Ski)
	if rd == nil {
		return "", nil
	}
	var l []string
	var ids []uint64
	for _, b := range n.Dev.SubscriptionManager().Subscriptions(rd) {
		l = append(l, RegKey{p.Name, AddrStr(b.ClientFeature.Address()), AddrStr(b.ServerFeature.Address())}.String())
		ids = append(ids, b.Id)
	}
	sort.Strings(l)
	return strings.Join(l, ";"), ids
}

// notifyFunction returns the function a notify datagram carries.
//
//go:norace
func cmdFunction(c model.CmdType) (model.FunctionType, any) {
	// (the data member is found by its wire name, not through the implementation's tags)
	v := reflect.ValueOf(c)
	for i := 0; i < v.NumField(); i++ {
		sf := v.Type().Field(i)
		if _, ok := cmdFieldByFn[model.FunctionType(jsonName(sf))]; !ok {
			continue
		}
		if f := v.Field(i); f.Kind() == reflect.Ptr && !f.IsNil() {
			return model.FunctionType(jsonName(sf)), f.Interface()
		}
	}
	return "", nil
}

// checkFanout verifies the exactly-once fan-out of every data change.
//
//go:norace
func checkFanout(w *World, prop string, pr *Proto, regOps []RegOp, dops []*dataOp) {
	for _, op := range dops {
		if op.ret == 0 {
			continue
		}
		overl := false
		for _, o2 := range dops {
			if o2 != op && o2.feat == op.feat && o2.fn == op.fn && o2.invoke < op.ret && op.invoke < o2.ret {
				overl = true
			}
		}
		server := AddrStr(op.feat.F.Address())
		for _, p := range pr.Peers {
			// notifies written by this operation to this peer
			got := map[string]int{}
			for _, s := range p.Conn.Out {
				if s.OpSeq != op.invoke || s.Task != op.task || Classifier(s) != "notify" || s.D == nil {
					continue
				}
				if AddrStr(s.D.Header.AddressSource) != server {
					continue
				}
				fn, val := cmdFunction(s.D.Payload.Cmd[0])
				if fn != op.fn {
					w.Violate(prop+"/notify-carries-other-function", "%s of %s produced a notify for %s", op.how, op.fn, fn)
					continue
				}
				got[AddrStr(s.D.Header.AddressDestination)]++
				if !overl && op.how == "SetData" {
					if c := CanonAny(val); c != op.canon {
						w.Violate(prop+"/notify-payload", "notify after %s(%s) carries %s, want %s", op.how, op.fn, c, op.canon)
					}
				}
			}
			// expected subscribers among this peer's features
			seen := map[string]bool{}
			for _, e := range append(append([]*PEnt{}, p.Ents...), p.Gone...) {
				for _, f := range e.Feats {
					client := AddrStr(f.Address())
					if seen[client] {
						continue
					}
					st := subscribedState(regOps, "sub", RegKey{p.Name, client, server}, op.invoke, op.ret)
					n := got[client]
					seen[client] = true
					switch {
					case st == 1 && n != 1:
						w.Violate(fmt.Sprintf("%s/fanout-%s-to-subscriber", prop, countWord(n)), "%s(%s) on %s sent %d notifications to subscriber %s, want 1", op.how, op.fn, server, n, client)
					case st == 0 && n != 0:
						w.Violate(prop+"/fanout-to-non-subscriber", "%s(%s) on %s sent %d notifications to %s which is not subscribed", op.how, op.fn, server, n, client)
					case st == -1 && n > 1:
						w.Violate(prop+"/fanout-duplicate", "%s(%s) on %s sent %d notifications to %s", op.how, op.fn, server, n, client)
					}
					if st == 1 && n == 1 {
						w.Probe("fanout-notify-to-subscriber")
					}
					if st == -1 {
						w.Probe("fanout-overlapped-registry-change")
					}
				}
			}
			for c, n := range got {
				if !seen[c] {
					w.Violate(prop+"/fanout-to-unknown-destination", "%s(%s) sent %d notifications to unannounced address %s", op.how, op.fn, n, c)
				}
			}
		}
	}
}

func countWord(n int) string {
	switch {
	case n == 0:
		return "missing"
	case n > 1:
		return "duplicated"
	}
	return "ok"
}

// dataTask issues local data changes on server features.
//
//go:norace
func dataTask(w *World, name string, feats []*LFeat, n int, out *[]*dataOp, ready func() bool) {
	w.Go(name, func() {
		if ready != nil {
			simrt.WaitUntil("data-ready", ready)
		}
		for i := 0; i < n; i++ {
			f := feats[w.T.Choose(len(feats), "data-feature")]
			if len(f.Funcs) == 0 {
				continue
			}
			fn := f.Funcs[w.T.Choose(len(f.Funcs), "data-function")]
			info, ok := fnByName[fn.Fn]
			if !ok {
				continue
			}
			data := w.GenData(info)
			op := &dataOp{feat: f, fn: fn.Fn, canon: CanonAny(data), task: simrt.Self().String()}
			*out = append(*out, op)
			if w.T.Bool(1, 3, "use-update-data") && info.IsList {
				op.how = "UpdateData"
				op.invoke = w.Logf("invoke UpdateData %s %s", AddrStr(f.F.Address()), fn.Fn)
				simrt.Self().OpSeq = op.invoke
				f.F.UpdateData(fn.Fn, data, nil, nil)
			} else {
				op.how = "SetData"
				op.invoke = w.Logf("invoke SetData %s %s", AddrStr(f.F.Address()), fn.Fn)
				simrt.Self().OpSeq = op.invoke
				f.F.SetData(fn.Fn, data)
			}
			op.ret = w.Logf("return %s", op.how)
			if w.T.Bool(1, 3, "data-pause") {
				w.Yield("data-pause")
			}
		}
	})
}

type c08Data struct {
	pr   *Proto
	rs   *regScript
	dops []*dataOp
	ev   *EventLog
	// a peer whose connection is removed while the others go on (its own requests are over by then)
	victim *Peer
	drop   *RegOp
	// entities removed by their peers (windows filled in from the deliveries)
	entdrops []RegOp
}

func init() {
	Register(&Scenario{
		Prop: "C08", Name: "sub-registry-fanout", Weight: 3,
		NonTrivial: []string{"fanout-notify-to-subscriber"},
		Build: func(w *World) {
			pr := BuildProto(w, ProtoOpt{Peers: 2 + w.T.Choose(2, "peers"), MinServers: 2})
			pr.L.QuiesceOwnTraffic = true
			d := &c08Data{pr: pr, rs: &regScript{w: w, pr: pr, kind: "sub"}}
			d.ev = w.CollectEvents()
			w.EnableFaults("net.dup", "peer.entity_remove")
			hot := pr.Servers[w.T.Choose(len(pr.Servers), "hot")]
			if len(pr.Peers) >= 3 && w.T.Bool(1, 2, "teardown-victim") {
				d.victim = pr.Peers[len(pr.Peers)-1]
				w.EnableFaults("conn.drop")
				w.Go("teardown", func() {
					simrt.WaitUntil("victim-requests-over", func() bool {
						return w.scriptsDone("script:"+d.victim.Name) && len(d.victim.Conn.Queue) == 0 && !d.victim.Conn.Handling
					})
					for k := w.T.Choose(16, "teardown-delay"); k > 0; k-- {
						w.Yield("teardown-delay")
					}
					call := w.Logf("fault conn.drop %s", d.victim.Name)
					simrt.Self().OpSeq = call
					if pr.L.Disconnect(d.victim.Name) {
						w.Fault("conn.drop")
						d.drop = &RegOp{Kind: "drop", Peer: d.victim.Name, OK: true, Call: d.victim.Conn.RemoveBeganAt, Return: w.Stamp(), Desc: "conn.drop"}
					}
				})
			}
			// a peer that subscribes its node management before it has answered discovery, loses its
			// connection in that state and comes back (seed C08-f): its entry went with the connection,
			// the same request is granted again and listed once
			if w.T.Bool(1, 3, "early-leaver") {
				pe := w.NewPeer("PE", "d:_i:PE", pr.L)
				stdPeerTree(pe, false)
				pe.AutoDD = false
				pe.Connect()
				w.EnableFaults("conn.drop")
				w.Go("script:PE", func() {
					nmT := model.FeatureTypeTypeNodeManagement
					c1 := pe.SendSubscribe(pe.NM(), pe.LocalNM(), nmT, false, "sub:nm-before-discovery")
					pe.Await(c1)
					if !okResult(pe, c1) {
						return // (refused before discovery: nothing to leave behind)
					}
					for k := w.T.Choose(6, "leaver-delay"); k > 0; k-- {
						w.Yield("leaver-delay")
					}
					if !w.FaultsOn || !pr.L.Disconnect(pe.Name) {
						return
					}
					w.Fault("conn.drop")
					w.Fault("conn.restart")
					w.Probe("c08-left-before-discovery")
					pe.AutoDD = true
					pe.Connect()
					pe.AwaitDiscovery()
					seen := len(pe.Conn.Out)
					c2 := pe.SendSubscribe(pe.NM(), pe.LocalNM(), nmT, false, "sub:nm-after-return")
					pe.Await(c2)
					ok := false
					for _, s := range pe.Conn.Out[seen:] {
						if isRes, e := IsResult(s); isRes && e == 0 && s.D.Header.MsgCounterReference != nil && uint64(*s.D.Header.MsgCounterReference) == c2 {
							ok = true
						}
					}
					if !ok && !pe.Conn.Closed {
						w.Violate("C08/valid-subscription-refused/after-leaving-before-discovery", "PE subscribed its node management before answering discovery, lost its connection, came back: the same request is refused")
						return
					}
					if rd := pr.L.Dev.RemoteDeviceForSki(pe.Conn.Ski); rd != nil {
						if n := len(pr.L.Dev.SubscriptionManager().Subscriptions(rd)); n != 1 {
							w.Violate("C08/listing-after-leaving-before-discovery", "PE holds one subscription after its return, the list reported for it has %d entries", n)
						}
					}
				})
			}
			for _, p := range pr.Peers {
				p := p
				d.rs.watch(p)
				w.Go("script:"+p.Name, func() {
					p.AwaitDiscovery()
					n := 2 + w.T.Choose(6, "nops")
					if p == d.victim {
						n = 1 + w.T.Choose(3, "victim-nops")
					}
					for i := 0; i < n; i++ {
						if w.T.Bool(1, 6, "announces-known-entity-again") {
							// the peer announces an entity again, unchanged (the node rebuilds its view of the
							// entity's features): the registry is about addresses, nothing changes for it
							e := p.Ents[1+w.T.Choose(len(p.Ents)-1, "entity-again")]
							added := model.NetworkManagementStateChangeTypeAdded
							cmd := model.CmdType{
								Function:                            util.Ptr(model.FunctionTypeNodeManagementDetailedDiscoveryData),
								Filter:                              []model.FilterType{*model.NewFilterTypePartial()},
								NodeManagementDetailedDiscoveryData: p.DiscoveryData([]*PEnt{e}, &added, true),
							}
							p.Await(p.SendCmd(p.NM().Address(), p.LocalNM(), model.CmdClassifierTypeNotify, nil, cmd, "entity-announced-again"))
							w.Probe("peer-announced-known-entity-again")
						}
						var ri *regIssued
						if w.T.Bool(1, 6, "listing") {
							ri = d.rs.issueListing(p)
						} else {
							ri = d.rs.issue(p, hot)
						}
						if w.T.Bool(1, 2, "await") {
							p.Await(ri.ctr)
						}
					}
					// when its requests are over the peer removes its second entity; the notification
					// may name an entity the node never heard of first (a repeated removal, say)
					if e := p.Entity([]uint{1, 1}); e != nil && p != d.victim && w.FaultsOn && w.FaultRate["peer.entity_remove"] > 0 && w.T.Bool(1, 2, "removes-second-entity") {
						simrt.WaitUntil("own-requests-over", func() bool { return len(p.Conn.Queue) == 0 && !p.Conn.Handling })
						w.Fault("peer.entity_remove")
						removed := model.NetworkManagementStateChangeTypeRemoved
						gone := []*PEnt{e}
						if w.T.Bool(1, 2, "also-removes-an-unknown-entity") {
							gone = []*PEnt{{Peer: p, Addr: []uint{7}, Type: model.EntityTypeTypeEV}, e}
							w.Probe("entity-removal-names-unknown-entity-first")
						}
						cmd := model.CmdType{
							Function:                            util.Ptr(model.FunctionTypeNodeManagementDetailedDiscoveryData),
							Filter:                              []model.FilterType{*model.NewFilterTypePartial()},
							NodeManagementDetailedDiscoveryData: p.DiscoveryData(gone, &removed, false),
						}
						ctr := p.SendCmd(p.NM().Address(), p.LocalNM(), model.CmdClassifierTypeNotify, nil, cmd, "entity-removed")
						p.RemoveEntity([]uint{1, 1})
						d.entdrops = append(d.entdrops, RegOp{Kind: "entdrop", Peer: p.Name, Client: p.Addr + "/[1,1]/", OK: true, Desc: fmt.Sprint(ctr)})
						p.Await(ctr)
					}
				})
			}
			nd := 1 + w.T.Choose(2, "data-tasks")
			for i := 0; i < nd; i++ {
				feats := pr.Servers
				if w.T.Bool(1, 2, "data-on-hot") {
					feats = []*LFeat{hot}
				}
				var ready func() bool
				if w.T.Bool(3, 4, "data-waits-for-grant") {
					scripts := 0
					ready = func() bool { scripts++; return d.rs.grants > 0 || w.scriptsDone("script:") }
				}
				dataTask(w, fmt.Sprintf("data%d", i), feats, 2+w.T.Choose(5, "ndata"), &d.dops, ready)
			}
			w.scData = d
		},
		Check: func(w *World) {
			d := w.scData.(*c08Data)
			ops := d.rs.collect("C08")
			ops = append(ops, d.rs.collectListings("C08")...)
			if d.drop != nil {
				ops = append(ops, *d.drop)
			}
			entRemoved := 0
			for _, x := range resolveEntdrops(d.pr.Peers, d.entdrops) {
				ops = append(ops, x)
			}
			for _, x := range d.entdrops {
				// (the peer's requests were over: what the entity's features still held goes with it)
				for _, o := range ops {
					if o.Peer == x.Peer && strings.HasPrefix(o.Client, x.Client) && o.OK {
						if o.Kind == "sub" {
							entRemoved++
						} else if o.Kind == "unsub" {
							entRemoved--
						}
					}
				}
			}
			end := w.Stamp()
			allIDs := map[uint64]int{}
			for _, p := range d.pr.Peers {
				l, ids := subscriptionListing(d.pr.L, p)
				for _, id := range ids {
					allIDs[id]++
				}
				ops = append(ops, RegOp{Kind: "list", Peer: p.Name, Listing: l, OK: true, Call: end, Return: end + 1, ClientID: 999, Desc: "final"})
			}
			w.Stamp()
			for id, n := range allIDs {
				if n > 1 {
					w.Violate("C08/duplicate-subscription-id", "subscription id %d is used by %d entries", id, n)
				}
			}
			granted, removed := 0, 0
			for _, o := range ops {
				if o.Kind == "sub" && o.OK {
					granted++
				}
				if o.Kind == "unsub" && o.OK {
					removed++
				}
				if o.Kind == "sub" && !o.OK && o.Valid {
					w.Probe("duplicate-subscribe-refused")
				}
			}
			w.ProbeN("sub-granted", granted)
			w.ProbeN("unsub-ok", removed)
			checkRegLinearizable(w, "C08", splitDrops(ops, d.pr.Peers), false)
			checkFanout(w, "C08", d.pr, ops, d.dops)
			// the harness's own subscription to the peers' node management is client side and
			// produces no SubscriptionChange event on L
			// (the events of the peers whose requests the registry model follows; the early leaver PE
			// has its own checks)
			adds, rems := 0, 0
			for _, p := range d.pr.Peers {
				adds += d.ev.Count(api.EventTypeSubscriptionChange, api.ElementChangeAdd, p.Conn.Ski)
				rems += d.ev.Count(api.EventTypeSubscriptionChange, api.ElementChangeRemove, p.Conn.Ski)
			}
			if adds != granted {
				w.Violate("C08/subscription-add-events", "%d subscription-added events for %d granted subscriptions", adds, granted)
			}
			if d.drop != nil {
				// the removal of the victim's connection removes what the victim still had (its
				// requests were over: granted minus deleted)
				for _, o := range ops {
					if o.Peer == d.victim.Name && o.Kind == "sub" && o.OK {
						removed++
					}
					if o.Peer == d.victim.Name && o.Kind == "unsub" && o.OK {
						removed--
					}
				}
			}
			removed += entRemoved
			if rems != removed {
				w.Violate("C08/subscription-remove-events", "%d subscription-removed events for %d successful deletes (and entries of a removed connection)", rems, removed)
			}
			w.State(fmt.Sprint(ops))
			_ = util.Ptr[int]
		},
	})
}
