package harness

import (
	"fmt"
	"sync/atomic"
	"time"

	"github.com/enbility/spine-go/api"
	"github.com/enbility/spine-go/model"
	"github.com/enbility/spine-go/util"

	"verifsim/simrt"
)

// C11 — data handed to the application is a stable snapshot.

type c11Snap struct {
	what  string
	obj   any
	canon string
	seq   uint64
	ready atomic.Int32
}

type c11Data struct {
	w     *World
	snaps []*c11Snap
	info  FnInfo
	// acquired: which snapshots a consumer task has taken over (see c11Snap.ready)
	acquired map[string]map[*c11Snap]bool
}

// list returns the retained snapshots after taking each of them over once per consumer. The
// hand-over is a release/acquire pair the race detector sees (an atomic flag per snapshot):
// the application passes an object it was given from one of its goroutines to another
// properly, so what was written before the hand-over happens-before the consumer's reads -
// and nothing else is ordered, in particular no later write of the stack.
//
//go:norace
func (d *c11Data) list(consumer string) []*c11Snap {
	if d.acquired == nil {
		d.acquired = map[string]map[*c11Snap]bool{}
	}
	m := d.acquired[consumer]
	if m == nil {
		m = map[*c11Snap]bool{}
		d.acquired[consumer] = m
	}
	l := d.snaps
	for _, s := range l {
		if !m[s] {
			s.ready.Load()
			m[s] = true
		}
	}
	return l
}

//go:norace
func (d *c11Data) retain(what string, obj any) {
	if obj == nil || util.IsNil(obj) {
		return
	}
	s := &c11Snap{what: what, obj: obj, canon: CanonAny(obj)}
	s.seq = d.w.Logf("retain %s", what)
	d.snaps = append(d.snaps, s)
	s.ready.Store(1)
}

// verify re-encodes every retained snapshot.
//
//go:norace
func (d *c11Data) verify(after string) {
	for _, s := range d.list("verify:" + taskName()) {
		if c := CanonAny(s.obj); c != s.canon {
			d.w.Violate("C11/snapshot-changed/"+s.what+"/after-"+after, "a data set obtained through %s (at %d) changed after %s:\nwas %s\nis  %s", s.what, s.seq, after, s.canon, c)
			s.canon = c
		}
		d.w.Probe("c11-snapshot-verified")
	}
}

// HandleEvent: the application keeps the payload of data-change events.
//
//go:norace
func (d *c11Data) HandleEvent(p api.EventPayload) {
	if p.EventType == api.EventTypeDataChange && p.Data != nil {
		d.retain("event-payload", p.Data)
	}
}

func init() {
	Register(&Scenario{
		Prop: "C11", Name: "snapshots", Weight: 5,
		NonTrivial: []string{"c11-snapshot-verified"},
		Build: func(w *World) {
			d := &c11Data{w: w}
			w.scData = d
			lf := getListFunctions()
			// mostly the flag carrying functions and a few others; sometimes any list function
			pref := []model.FunctionType{model.FunctionTypeLoadControlLimitListData, model.FunctionTypeMeasurementListData, model.FunctionTypeSetpointListData, model.FunctionTypeElectricalConnectionPermittedValueSetListData}
			info := fnByName[pref[w.T.Choose(len(pref), "function")]]
			if w.T.Bool(1, 3, "any-function") {
				info = lf[w.T.Choose(len(lf), "any")]
			}
			d.info = info
			ft := featureTypeOf(info.Fn)
			L := w.NewNode("L", "d:_i:L", model.NetworkManagementFeatureSetTypeSmart)
			le := L.NewLocalEntity([]uint{1}, model.EntityTypeTypeCEM, 4*time.Second)
			srv := le.AddFeature(ft, model.RoleTypeServer, PFunc{info.Fn, true, true})
			cli := le.AddFeature(ft, model.RoleTypeClient)
			L.AddEntity(le)
			p := w.NewPeer("P1", "d:_i:P1", L)
			pe := p.AddEntity([]uint{1}, model.EntityTypeTypeEVSE, "")
			pSrv := pe.AddFeature(1, ft, model.RoleTypeServer, PFunc{info.Fn, true, false})
			pCli := pe.AddFeature(2, ft, model.RoleTypeClient)
			p.Connect()
			subscribeApp(w, d)
			done := false
			w.Go("updates", func() {
				p.AwaitDiscovery()
				p.Await(p.SendBind(pCli, srv.Address(), ft, false, "bind"))
				rfOf := func() api.FeatureRemoteInterface {
					simrt.WaitUntil("conn-idle", func() bool { return len(p.Conn.Queue) == 0 && !p.Conn.Handling })
					if rd := L.Dev.RemoteDeviceForSki(p.Conn.Ski); rd != nil {
						return rd.FeatureByAddress(pSrv.Address())
					}
					return nil
				}
				n := 4 + w.T.Choose(12, "nsteps")
				for i := 0; i < n; i++ {
					rf := rfOf()
					if rf == nil {
						return
					}
					// take snapshots through every seam the application has
					switch w.T.Choose(5, "snapshot") {
					case 0:
						d.retain("FeatureLocal.DataCopy", srv.F.DataCopy(info.Fn))
					case 1:
						d.retain("FeatureRemote.DataCopy", rf.DataCopy(info.Fn))
					case 2:
						d.retain("NodeManagement.DataCopy(useCaseData)", L.Dev.NodeManagement().DataCopy(model.FunctionTypeNodeManagementUseCaseData))
					}
					u := genUpdate(w, info, nil, func() *bool {
						if w.T.Bool(1, 2, "flag") {
							return util.Ptr(w.T.Bool(2, 3, "changeable"))
						}
						return nil
					})
					if u == nil {
						continue
					}
					how := ""
					switch w.T.Choose(7, "update-path") {
					case 0:
						how = "local-update"
						if u.fp == nil && u.fd == nil {
							srv.F.SetData(info.Fn, u.data)
						} else {
							_ = srv.F.UpdateData(info.Fn, u.data, u.fp, u.fd)
						}
					case 1:
						how = "remote-write"
						// an update reported as failed leaves the stored data exactly as it was (seed C11-g);
						// filter-less writes are not judged here (known findings of C04)
						before := CanonAny(srv.F.DataCopy(info.Fn))
						ctr := p.SendCmd(pCli.Address(), srv.Address(), model.CmdClassifierTypeWrite, util.Ptr(true), u.cmdFor(info), "write:"+u.shape)
						p.Await(ctr)
						simrt.WaitUntil("conn-idle", func() bool { return len(p.Conn.Queue) == 0 && !p.Conn.Handling })
						refused := false
						for _, s := range p.Responses(ctr) {
							if isRes, e := IsResult(s); isRes && e != 0 {
								refused = true
							}
						}
						if refused {
							w.Probe("c11-refused-write-checked")
							if after := CanonAny(srv.F.DataCopy(info.Fn)); after != before && (u.fp != nil || u.fd != nil) {
								w.Violate("C11/failed-update-changed-stored-data/"+u.shape, "the remote write (%s) was answered with an error result and changed the stored data\nfrom %s\nto   %s", u.shape, before, after)
							}
						}
					case 2, 3:
						how = "peer-notify-or-reply"
						cl := model2Classifier(w)
						h := p.Header(pSrv.Address(), cli.Address(), cl, nil)
						if cl == model.CmdClassifierTypeReply {
							h.MsgCounterReference = util.Ptr(model.MsgCounterType(77))
						}
						ctr := p.Send(model.DatagramType{Header: h, Payload: model.PayloadType{Cmd: []model.CmdType{u.cmdFor(info)}}}, u.shape)
						p.Await(ctr)
					case 4:
						how = "remote-api-persisting"
						_, _ = rf.UpdateData(true, info.Fn, u.data, u.fp, u.fd)
					case 5:
						how = "remote-api-not-persisting"
						before := CanonAny(rf.DataCopy(info.Fn))
						res, _ := rf.UpdateData(false, info.Fn, u.data, u.fp, u.fd)
						d.retain("UpdateData(persist=false)-result", res)
						if after := CanonAny(rf.DataCopy(info.Fn)); after != before {
							w.Violate("C11/non-persisting-update-changed-stored-data/"+u.shape, "FeatureRemote.UpdateData(persist=false, %s) changed the stored data\nfrom %s\nto   %s", u.shape, before, after)
						}
						w.Probe("c11-non-persisting-update-checked")
					default:
						how = "use-case-operation"
						switch w.T.Choose(3, "uc") {
						case 0:
							le.E.AddUseCaseSupport(model.UseCaseActorTypeCEM, c20Names[w.T.Choose(len(c20Names), "name")], model.SpecificationVersionType(fmt.Sprintf("1.%d.0", w.Uniq())), "r", true, []model.UseCaseScenarioSupportType{1})
						case 1:
							le.E.SetUseCaseAvailability(model.UseCaseActorTypeCEM, c20Names[w.T.Choose(len(c20Names), "name")], w.T.Bool(1, 2, "av"))
						default:
							le.E.RemoveUseCaseSupport(model.UseCaseActorTypeCEM, c20Names[w.T.Choose(len(c20Names), "name")])
						}
					}
					w.Logf("applied %s %s", how, u.shape)
					w.Probe("c11-update-" + how)
					d.verify(how)
				}
				done = true
			})
			// the application reads (encodes) what it was handed while the stack keeps working
			w.Go("reader", func() {
				simrt.WaitUntil("first-snapshot", func() bool { return len(d.snaps) > 0 || done })
				for i := 0; i < 80 && !done; i++ {
					for _, s := range d.list("reader") {
						_ = CanonAny(s.obj)
					}
					w.Probe("c11-reader-pass")
					w.Yield("reader")
				}
			})
		},
		Check: func(w *World) {
			d := w.scData.(*c11Data)
			d.verify("the-run")
			w.State(fmt.Sprint(len(d.snaps)))
		},
	})
}

//go:norace
func taskName() string {
	if t := simrt.Self(); t != nil {
		return t.Name
	}
	return "sched"
}
