package harness

import (
	"github.com/enbility/spine-go/model"
	"github.com/enbility/spine-go/util"

	"verifsim/simrt"
)

// C08 variant notify-payload — "a change of a local server feature's data sends one notification
// carrying the changed function's data to each remote feature currently subscribed", for every
// registered list function and every update shape of C02 (the main scenario compares payloads
// for SetData on a handful of functions only): after each local change the subscriber got one
// notification whose data element is what the function holds now.
//
// Deliberately NOT asserted: that a subscriber applying the notifications by the cmdOption rules
// ends up with the server's data. The stack sends the whole current data with an empty partial
// filter (or with the update's selectors), so deletions are not reproduced by a subscriber that
// merges - a weakness, but the property speaks of the notification carrying the function's data,
// not of its filters (a first version of this variant demanded convergence and was withdrawn as
// asking more than the property states, DESIGN 10.4).

func init() {
	Register(&Scenario{
		Prop: "C08", Name: "notify-payload",
		NonTrivial: []string{"c08r-payload-compared"},
		Build: func(w *World) {
			lf := getListFunctions()
			info := lf[w.T.Choose(len(lf), "function")]
			ft := featureTypeOf(info.Fn)
			w.Probe("c08r-fn-" + string(info.Fn))
			L := w.NewNode("L", "d:_i:L", model.NetworkManagementFeatureSetTypeSmart)
			le := L.NewLocalEntity([]uint{1}, model.EntityTypeTypeCEM, 0)
			srv := le.AddFeature(ft, model.RoleTypeServer, PFunc{info.Fn, true, true})
			L.AddEntity(le)
			p := w.NewPeer("P1", "d:_i:P1", L)
			pe := p.AddEntity([]uint{1}, model.EntityTypeTypeEVSE, "")
			pCli := pe.AddFeature(1, ft, model.RoleTypeClient)
			p.Connect()
			w.Go("history", func() {
				p.AwaitDiscovery()
				c := p.SendSubscribe(pCli, srv.Address(), ft, false, "sub")
				p.Await(c)
				if !okResult(p, c) {
					w.Violate("C08/valid-subscription-refused", "the subscription of %s to %s was refused", AddrStr(pCli.Address()), AddrStr(srv.Address()))
					return
				}
				// the subscriber is also bound: some of the changes are its own accepted remote writes
				// (full writes, whose cmd carries what the function then holds), with ackRequest absent,
				// false or true - the acknowledgement has nothing to do with the notification (seed C08-g)
				bc := p.SendBind(pCli, srv.Address(), ft, false, "bind")
				p.Await(bc)
				bound := okResult(p, bc)
				simrt.WaitUntil("conn-idle", func() bool { return len(p.Conn.Queue) == 0 && !p.Conn.Handling })
				var ref absList
				seen := len(p.Conn.Out)
				n := 3 + w.T.Choose(10, "nupdates")
				for i := 0; i < n; i++ {
					u := genUpdate(w, info, ref, nil)
					if u == nil {
						continue
					}
					w.Logf("update %d %s on %s", i, u.shape, info.Fn)
					how := "UpdateData"
					if u.fp == nil && u.fd == nil && bound && u.shape == "full" && w.T.Bool(1, 3, "remote-write") {
						var ack *bool
						switch w.T.Choose(3, "write-ack") {
						case 0:
							how = "remote write (ackRequest absent)"
						case 1:
							how, ack = "remote write (ackRequest false)", util.Ptr(false)
						default:
							how, ack = "remote write (ackRequest true)", util.Ptr(true)
						}
						cmd := model.CmdType{}
						SetCmdData(&cmd, info.Fn, u.data)
						p.Await(p.SendCmd(pCli.Address(), srv.Address(), model.CmdClassifierTypeWrite, ack, cmd, "write-full"))
						simrt.WaitUntil("conn-idle", func() bool { return len(p.Conn.Queue) == 0 && !p.Conn.Handling })
						if absOf(info, srv.F.DataCopy(info.Fn)).canon() != absOf(info, u.data).canon() {
							continue // (not accepted: C03/C04's business; nothing changed, nothing to tell)
						}
						w.Probe("c08r-remote-write-accepted")
					} else if u.fp == nil && u.fd == nil && w.T.Bool(1, 2, "set-data") {
						how = "SetData"
						srv.F.SetData(info.Fn, u.data)
					} else if e := srv.F.UpdateData(info.Fn, u.data, u.fp, u.fd); e != nil {
						// (C02's business; nothing was changed, nothing has to be told)
						continue
					}
					before := ref.canon()
					ref = absFold(info, ref, u.abs)
					now := absOf(info, srv.F.DataCopy(info.Fn))
					// what the node wrote to the subscribed feature during the call
					nn := 0
					for _, s := range p.Conn.Out[seen:] {
						if Classifier(s) != "notify" || s.D == nil || len(s.D.Payload.Cmd) == 0 ||
							AddrStr(s.D.Header.AddressDestination) != AddrStr(pCli.Address()) {
							continue
						}
						fn, val := cmdFunction(s.D.Payload.Cmd[0])
						if fn != info.Fn {
							w.Violate("C08/notify-carries-other-function", "%s(%s) of %s produced a notify for %q", how, u.shape, info.Fn, fn)
							return
						}
						nn++
						if got := absOf(info, val); got.canon() != now.canon() {
							w.Violate("C08/notify-payload/"+u.shape, "the notification after %s (%s) of %s carries\n%s\nthe function holds\n%s", how, u.shape, info.Fn, got.canon(), now.canon())
							return
						}
					}
					seen = len(p.Conn.Out)
					if nn > 1 {
						w.Violate("C08/fanout-duplicated-to-subscriber", "%s(%s) of %s sent %d notifications to the subscriber, want 1", how, u.shape, info.Fn, nn)
						return
					}
					if nn == 0 && before != now.canon() {
						w.Violate("C08/fanout-missing-to-subscriber", "%s(%s) of %s changed the data and sent no notification to the subscriber", how, u.shape, info.Fn)
						return
					}
					w.Probe("c08r-payload-compared")
					w.Probe("c08r-shape-" + u.shape)
				}
				w.State(ref.canon())
			})
		},
	})
}
