package harness

// SELF — probes of the machinery itself (used by `./check selftest`, not a property):
// two tasks write one variable without any synchronisation of their own. The only thing that
// orders them is the scheduler's token passing; the race build must nevertheless report the
// pair, proving that the hidden hand-offs do not blind the detector.
var selfProbeVar int

func selfRaceBump(i int) { selfProbeVar += i }

func init() {
	Register(&Scenario{
		Prop: "SELF", Name: "race-probe", Race: true,
		Build: func(w *World) {
			for i := 0; i < 2; i++ {
				i := i
				w.Go("racer", func() {
					w.Yield("a")
					selfRaceBump(i + 1)
					w.Yield("b")
				})
			}
		},
		Check: func(w *World) {},
	})
}
