package harness

import (
	"time"

	"github.com/enbility/spine-go/model"
)

// SELF — probes of the machinery itself (used by `./check selftest`, not a property):
// a known unsynchronised write in the stack (SetWriteApprovalTimeout from two tasks) must be
// reported by the race build under owned schedules, proving that the hidden hand-offs do not
// blind the detector.
func init() {
	Register(&Scenario{
		Prop: "SELF", Name: "race-probe", Race: true,
		Build: func(w *World) {
			L := w.NewNode("L", "d:_i:L", model.NetworkManagementFeatureSetTypeSmart)
			le := L.NewLocalEntity([]uint{1}, model.EntityTypeTypeCEM, 4*time.Second)
			f := le.AddFeature(model.FeatureTypeTypeLoadControl, model.RoleTypeServer)
			L.AddEntity(le)
			for i := 0; i < 2; i++ {
				i := i
				w.Go("racer", func() {
					w.Yield("a")
					f.F.SetWriteApprovalTimeout(time.Duration(i+1) * time.Second)
					w.Yield("b")
				})
			}
		},
		Check: func(w *World) {},
	})
}

func init() {
	Register(&Scenario{
		Prop: "SELF2", Name: "snapshot-race-probe", Race: true,
		Build: func(w *World) {
			L := w.NewNode("L", "d:_i:L", model.NetworkManagementFeatureSetTypeSmart)
			le := L.NewLocalEntity([]uint{1}, model.EntityTypeTypeCEM, 4*time.Second)
			L.AddEntity(le)
			le.E.AddUseCaseSupport(model.UseCaseActorTypeCEM, c20Names[0], "1.0.0", "r", true, nil)
			d := &c11Data{w: w}
			d.retain("uc", L.Dev.NodeManagement().DataCopy(model.FunctionTypeNodeManagementUseCaseData))
			w.Go("reader", func() {
				for i := 0; i < 6; i++ {
					for _, s := range d.list("reader") {
						_ = CanonAny(s.obj)
					}
					w.Yield("r")
				}
			})
			w.Go("updates", func() {
				w.Yield("u")
				w.Yield("u")
				le.E.AddUseCaseSupport(model.UseCaseActorTypeCEM, c20Names[1], "1.0.0", "r", true, nil)
				w.Yield("u")
			})
		},
		Check: func(w *World) {},
	})
}
