package harness

import (
	"fmt"
	"strings"
	"time"

	"github.com/enbility/spine-go/api"
	"github.com/enbility/spine-go/model"
	"github.com/enbility/spine-go/util"

	"verifsim/simrt"
)

// C12 — write approval: unanimous, timely, exactly one outcome per write (DESIGN A.6).

type c12Verdict struct {
	cb       int
	kind     string // approve | deny | silent
	invoke   uint64 // ApproveOrDenyWrite invoked (0 = never)
	ret      uint64
	presentN int
}

type c12Write struct {
	peer     *Peer
	feat     *LFeat
	ctr      uint64
	canon    string
	marker   string
	verdicts []*c12Verdict
	timer    *simrt.Task
	timerEnd uint64
}

type c12Data struct {
	pr      *Proto
	writes  []*c12Write
	ev      *EventLog
	ncb     map[*LFeat]int
	timeout map[*LFeat]time.Duration
	tend    map[*simrt.Task]uint64
}

//go:norace
func (d *c12Data) find(msg *api.Message) *c12Write {
	if msg == nil || msg.RequestHeader == nil || msg.RequestHeader.MsgCounter == nil || msg.DeviceRemote == nil {
		return nil
	}
	for _, x := range d.writes {
		if x.peer.Conn.Ski == msg.DeviceRemote.Ski() && x.ctr == uint64(*msg.RequestHeader.MsgCounter) {
			return x
		}
	}
	return nil
}

func init() {
	Register(&Scenario{
		Prop: "C12", Name: "write-approval", DeadlockDirected: true,
		NonTrivial: []string{"c12-write-decided"},
		Build: func(w *World) {
			pr := BuildProto(w, ProtoOpt{Peers: 1 + w.T.Choose(2, "peers"), MinServers: 2, SecondEntity: false,
				ServerTypes: []model.FeatureTypeType{model.FeatureTypeTypeLoadControl, model.FeatureTypeTypeSetpoint}})
			d := &c12Data{pr: pr, ev: w.CollectEvents(), ncb: map[*LFeat]int{}, timeout: map[*LFeat]time.Duration{}, tend: map[*simrt.Task]uint64{}}
			w.scData = d
			feats := pr.Servers[:2]
			timeouts := []time.Duration{100 * time.Millisecond, time.Second, 10 * time.Second}
			for _, sf := range feats {
				sf := sf
				n := 1 + w.T.Choose(3, "callbacks")
				d.ncb[sf] = n
				d.timeout[sf] = timeouts[w.T.Choose(len(timeouts), "timeout")]
				sf.F.SetWriteApprovalTimeout(d.timeout[sf])
				for cb := 0; cb < n; cb++ {
					cb := cb
					_ = sf.F.AddWriteApprovalCallback(func(msg *api.Message) {
						x := d.find(msg)
						if x == nil || cb >= len(x.verdicts) {
							w.Violate("C12/unknown-write-presented", "callback %d of %s was given a write the peers did not send", cb, AddrStr(sf.F.Address()))
							return
						}
						v := x.verdicts[cb]
						v.presentN++
						w.Logf("presented %s#%d to callback %d (%s)", x.peer.Name, x.ctr, cb, v.kind)
						if v.kind == "silent" {
							w.Fault("app.silent")
							return
						}
						// when does the application answer? at once, after some scheduling, or around the timeout
						switch w.T.Choose(5, "verdict-delay") {
						case 1:
							for k := 1 + w.T.Choose(6, "verdict-yields"); k > 0; k-- {
								w.Yield("thinking")
							}
						case 2:
							w.Fault("app.late")
							w.Sleep(d.timeout[sf] - time.Millisecond)
						case 3:
							w.Fault("app.late")
							w.Sleep(d.timeout[sf])
						case 4:
							w.Fault("app.late")
							w.Sleep(d.timeout[sf] + time.Millisecond)
						}
						e := model.ErrorType{}
						if v.kind == "deny" {
							e = *model.NewErrorTypeFromString("denied by application")
						}
						v.invoke = w.Logf("invoke verdict %s for %s#%d by callback %d", v.kind, x.peer.Name, x.ctr, cb)
						simrt.Self().OpSeq = v.invoke
						sf.F.ApproveOrDenyWrite(msg, e)
						v.ret = w.Logf("return verdict %s for %s#%d by callback %d", v.kind, x.peer.Name, x.ctr, cb)
					})
				}
			}
			// timers are created while a write is being handled: remember which write armed which timer
			w.SpawnHook = func(t *simrt.Task) {
				if t.Kind != "timer" {
					return
				}
				for _, p := range pr.Peers {
					if !p.Conn.Handling || len(p.Conn.Del) == 0 {
						continue
					}
					del := p.Conn.Del[len(p.Conn.Del)-1]
					if me := simrt.Self(); me == nil || me != p.Conn.task {
						continue
					}
					if del.D == nil || del.D.Header.MsgCounter == nil {
						continue
					}
					for _, x := range d.writes {
						if x.peer == p && x.ctr == uint64(*del.D.Header.MsgCounter) && x.timer == nil {
							x.timer = t
						}
					}
				}
			}
			w.StepCheck = func() {
				for _, x := range d.writes {
					if x.timer != nil && x.timerEnd == 0 && x.timer.Done() {
						x.timerEnd = w.Seq
					}
				}
			}
			// a peer that has nothing to do with the writes is connected as well, and goes away at
			// some point (fault conn.drop): the pending writes of the others are none of its business
			if w.T.Bool(1, 2, "bystander") {
				px := w.NewPeer("PX", "d:_i:PX", pr.L)
				stdPeerTree(px, false)
				px.Connect()
				w.Go("bystander-leaves", func() {
					px.AwaitDiscovery()
					for k := w.T.Choose(24, "bystander-delay"); k > 0; k-- {
						w.Yield("bystander-delay")
					}
					if w.T.Bool(1, 2, "bystander-waits") {
						w.Sleep(time.Duration(1+w.T.Choose(50, "bystander-ms")) * time.Millisecond)
					}
					w.Logf("fault conn.drop PX (bystander)")
					if pr.L.Disconnect("PX") {
						w.Fault("conn.drop")
						w.Probe("c12-bystander-removed")
					}
				})
			}
			for pi, p := range pr.Peers {
				p, sf := p, feats[pi%len(feats)]
				w.Go("script:"+p.Name, func() {
					p.AwaitDiscovery()
					cf := (&actor{w: w, pr: pr}).clientFor(p, sf)
					ctr := p.SendBind(cf, sf.Address(), sf.Type, false, "bind")
					p.Await(ctr)
					if w.T.Bool(1, 2, "subscribe") {
						p.Await(p.SendSubscribe(cf, sf.Address(), sf.Type, false, "sub"))
					}
					n := 1 + w.T.Choose(4, "nwrites")
					fn := sf.Funcs[0]
					info := fnByName[fn.Fn]
					for i := 0; i < n; i++ {
						data := w.GenSimpleList(info, 1)
						w.ForceUnique(info, data)
						cmd := model.CmdType{}
						SetCmdData(&cmd, fn.Fn, data)
						x := &c12Write{peer: p, feat: sf, canon: CanonAny(data)}
						kinds := []string{"approve", "approve", "approve", "deny", "silent"}
						allApprove := w.T.Bool(1, 3, "all-approve")
						for cb := 0; cb < d.ncb[sf]; cb++ {
							k := "approve"
							if !allApprove {
								k = kinds[w.T.Choose(len(kinds), "verdict")]
							}
							x.verdicts = append(x.verdicts, &c12Verdict{cb: cb, kind: k})
						}
						d.writes = append(d.writes, x)
						x.ctr = p.SendCmd(cf.Address(), sf.Address(), model.CmdClassifierTypeWrite, util.Ptr(true), cmd, "write")
						if w.T.Bool(1, 3, "await-write") {
							p.Await(x.ctr)
						}
					}
				})
			}
		},
		Check: func(w *World) {
			d := w.scData.(*c12Data)
			for _, x := range d.writes {
				dels := x.peer.DeliveriesOf(x.ctr)
				if len(dels) == 0 || !dels[0].Done {
					continue
				}
				n := len(x.verdicts)
				shape := fmt.Sprintf("cb%d", n)
				// presented once to every callback
				for _, v := range x.verdicts {
					if v.presentN != 1 {
						w.Violate("C12/presented-"+countWord(v.presentN), "write %s#%d was presented %d times to callback %d", x.peer.Name, x.ctr, v.presentN, v.cb)
					}
				}
				// outcomes
				nOK, nErr := 0, 0
				for _, s := range x.peer.Responses(x.ctr) {
					if isRes, e := IsResult(s); isRes {
						if e == 0 {
							nOK++
						} else {
							nErr++
						}
					}
				}
				applied := 0
				for _, e := range d.ev.Ev {
					if e.P.EventType == api.EventTypeDataChange && e.P.CmdClassifier != nil && *e.P.CmdClassifier == model.CmdClassifierTypeWrite &&
						e.P.LocalFeature == x.feat.F && CanonAny(e.P.Data) == x.canon && e.P.Ski == x.peer.Conn.Ski {
						applied++
					}
				}
				// classify by A.6
				var tStart, tEnd uint64
				if x.timer != nil {
					tStart, tEnd = x.timer.OpSeq, x.timerEnd
				}
				timerRan := x.timer != nil && tStart != 0
				approvals, denials, silent := 0, 0, 0
				var lastApprovalRet, firstDenialRet, firstDenialInv uint64
				allApprovalsReturnedBeforeTimer := true
				for _, v := range x.verdicts {
					switch v.kind {
					case "approve":
						approvals++
						if v.ret == 0 || (timerRan && v.ret > tStart) {
							allApprovalsReturnedBeforeTimer = false
						}
						if v.ret > lastApprovalRet {
							lastApprovalRet = v.ret
						}
					case "deny":
						denials++
						if v.ret != 0 && (firstDenialRet == 0 || v.ret < firstDenialRet) {
							firstDenialRet = v.ret
						}
						if v.invoke != 0 && (firstDenialInv == 0 || v.invoke < firstDenialInv) {
							firstDenialInv = v.invoke
						}
					default:
						silent++
					}
				}
				// applied iff unanimous and timely (A.6); a write that is not approved by everybody can
				// only end with an error (through a denial or through the timeout)
				expect := "either"
				switch {
				case approvals < n:
					expect = "error"
				case allApprovalsReturnedBeforeTimer:
					expect = "applied"
				case timerRan && tEnd != 0 && anyInvokedAfter(x.verdicts, tEnd):
					expect = "error"
				}
				_, _, _ = firstDenialRet, firstDenialInv, lastApprovalRet
				w.Probe("c12-write-decided")
				w.Probe("c12-expect-" + expect)
				if timerRan {
					for _, v := range x.verdicts {
						if v.invoke != 0 && v.invoke < tEnd && v.ret > tStart {
							w.Probe("verdict-overlapped-timeout")
						}
					}
				}
				pendingTogether := 0
				for _, y := range d.writes {
					if y != x && y.feat == x.feat {
						pendingTogether++
					}
				}
				if pendingTogether > 0 {
					w.Probe("several-writes-on-one-feature")
					shape += "-multi"
				}
				detail := fmt.Sprintf("write %s#%d on %s (%d callbacks: %s; timeout %v; timer fired@%d finished@%d): %d success result(s), %d error result(s), applied %d time(s)",
					x.peer.Name, x.ctr, AddrStr(x.feat.F.Address()), n, verdictStr(x.verdicts), d.timeout[x.feat], tStart, tEnd, nOK, nErr, applied)
				if nOK+nErr == 0 {
					w.Violate("C12/no-outcome/"+shape, "%s", detail)
					continue
				}
				if nOK+nErr > 1 {
					w.Violate("C12/several-outcomes/"+shape, "%s", detail)
					continue
				}
				if applied != nOK {
					w.Violate("C12/result-and-data-disagree/"+shape, "%s", detail)
				}
				if expect == "applied" && nOK != 1 {
					w.Violate("C12/unanimous-approval-not-applied/"+shape, "%s", detail)
				}
				if expect == "error" && nErr != 1 {
					w.Violate("C12/applied-without-unanimous-timely-approval/"+shape, "%s", detail)
				}
			}
			w.State(fmt.Sprint(len(d.writes)))
		},
	})
}

//go:norace
func anyInvokedAfter(vs []*c12Verdict, seq uint64) bool {
	for _, v := range vs {
		if v.invoke == 0 || v.invoke > seq {
			return true
		}
	}
	return false
}

//go:norace
func verdictStr(vs []*c12Verdict) string {
	var l []string
	for _, v := range vs {
		l = append(l, fmt.Sprintf("%s[%d,%d]", v.kind, v.invoke, v.ret))
	}
	return strings.Join(l, ",")
}
