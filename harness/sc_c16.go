package harness

import (
	"fmt"
	"strings"
	"time"

	"github.com/enbility/spine-go/model"

	"verifsim/simrt"
)

// C16 — heartbeat: monotone, periodic, stoppable.

type c16Op struct {
	kind    string // start | stop | query
	what    string
	invoke  uint64
	ret     uint64
	tInvoke time.Duration
	tRet    time.Duration
	running bool // query result
}

type c16Refresh struct {
	seq     uint64
	at      time.Duration // simulated time of the notification
	counter uint64
	stamp   time.Time
	timeout string
}

type c16Data struct {
	pr      *Proto
	ent     *LEnt
	diag    *LFeat
	tau     time.Duration
	ops     []*c16Op
	ref     []c16Refresh
	removed bool
	adding  bool // AddFunctionType(heartbeat) invoked
	added   bool // ... and returned
	ambig   bool // StartHeartbeat overlapped the addition of the heartbeat function
}

//go:norace
func (d *c16Data) op(w *World, kind, what string, f func()) *c16Op {
	o := &c16Op{kind: kind, what: what}
	d.ops = append(d.ops, o)
	o.tInvoke = w.Now()
	o.invoke = w.Logf("invoke %s", what)
	simrt.Self().OpSeq = o.invoke
	f()
	o.tRet = w.Now()
	o.ret = w.Logf("return %s", what)
	return o
}

// state: 1 certainly running at seq, 0 certainly stopped, -1 undecided.
//
//go:norace
func (d *c16Data) state(seq uint64) int {
	var last *c16Op
	for _, o := range d.ops {
		if o.kind == "query" {
			continue
		}
		if o.invoke <= seq && (o.ret == 0 || o.ret >= seq) {
			return -1
		}
		if o.ret != 0 && o.ret < seq && (last == nil || o.ret > last.ret) {
			last = o
		}
	}
	if last == nil {
		return 0
	}
	for _, o := range d.ops {
		if o.kind != "query" && o != last && o.kind != last.kind && o.ret != 0 && o.invoke < last.ret && last.invoke < o.ret {
			return -1
		}
	}
	if last.kind == "start" {
		return 1
	}
	return 0
}

//go:norace
func (d *c16Data) history() string {
	var l []string
	for _, o := range d.ops {
		l = append(l, fmt.Sprintf("%s:%s[%d,%d]", o.kind, o.what, o.invoke, o.ret))
	}
	return strings.Join(l, " ")
}

func init() {
	Register(&Scenario{
		Prop: "C16", Name: "heartbeat", DeadlockDirected: true, Weight: 3,
		NonTrivial: []string{"c16-refresh-observed"},
		Build: func(w *World) {
			d := &c16Data{}
			w.scData = d
			taus := []time.Duration{100 * time.Millisecond, 150 * time.Millisecond, 250 * time.Millisecond, 1250 * time.Millisecond, 500 * time.Millisecond, time.Second, 2 * time.Second, 2100 * time.Millisecond, 4 * time.Second, 10 * time.Second, 60 * time.Second}
			d.tau = taus[w.T.Choose(len(taus), "timeout")]
			pr := &Proto{W: w}
			d.pr = pr
			pr.L = w.NewNode("L", "d:_i:L", model.NetworkManagementFeatureSetTypeSmart)
			le := pr.L.NewLocalEntity([]uint{1}, model.EntityTypeTypeCEM, d.tau)
			d.ent = le
			d.diag = le.AddFeature(model.FeatureTypeTypeDeviceDiagnosis, model.RoleTypeServer, PFunc{model.FunctionTypeDeviceDiagnosisStateData, true, false})
			pr.L.AddEntity(le)
			p := w.NewPeer("P1", "d:_i:P1", pr.L)
			stdPeerTree(p, false)
			pr.Peers = []*Peer{p}
			p.Connect()
			// a slow subscriber (fault net.slow_write): writing a notification to it takes a
			// fraction of the period - the period of the refreshes must not grow by that
			var slowWrite time.Duration
			if w.T.Bool(1, 3, "slow-subscriber") {
				// (short against every period the stack may choose: a write that outlasts a tick
				// would need dropped ticks, which rule T2 does not model)
				slowWrite = []time.Duration{5 * time.Millisecond, 20 * time.Millisecond}[w.T.Choose(2, "slow-write")]
			}
			// every notification of heartbeat data is one refresh
			p.OnRecv = func(s *Sent) {
				if Classifier(s) != "notify" || s.D == nil || len(s.D.Payload.Cmd) == 0 {
					return
				}
				hb := s.D.Payload.Cmd[0].DeviceDiagnosisHeartbeatData
				if hb == nil {
					return
				}
				r := c16Refresh{seq: s.Seq, at: w.Now()}
				if hb.HeartbeatCounter != nil {
					r.counter = *hb.HeartbeatCounter
				}
				if hb.Timestamp != nil {
					if t, err := hb.Timestamp.GetTime(); err == nil {
						r.stamp = t
					}
				}
				if hb.HeartbeatTimeout != nil {
					r.timeout = string(*hb.HeartbeatTimeout)
				}
				d.ref = append(d.ref, r)
				if slowWrite > 0 && simrt.Self() != nil && w.FaultsOn {
					// (only if the write is over before the next tick of a busy ticker, rule T2)
					if lim, have := w.S.BusyTickLimit(); !have || time.Now().Add(slowWrite+2*time.Nanosecond).Before(lim) {
						w.Fault("net.slow_write")
						w.Sleep(slowWrite)
					}
				}
			}
			hbm := le.E.HeartbeatManager()
			ready := false
			w.Go("setup", func() {
				p.AwaitDiscovery()
				cf := p.Ents[1].Feature(pfDiagClient)
				p.Await(p.SendSubscribe(cf, d.diag.Address(), model.FeatureTypeTypeDeviceDiagnosis, false, "sub"))
				ready = true
			})
			nt := 1 + w.T.Choose(3, "tasks")
			for i := 0; i < nt; i++ {
				i := i
				w.Go(fmt.Sprintf("app%d", i), func() {
					simrt.WaitUntil("ready", func() bool { return ready })
					n := 2 + w.T.Choose(6, "nops")
					for j := 0; j < n; j++ {
						// (after the entity was removed the application may go on using its heartbeat
						// manager, and may remove the entity once more: every removal that returns ends
						// the heartbeat)
						if d.removed {
							w.Probe("c16-operation-after-entity-removal")
						}
						switch k := w.T.Choose(12, "hb-op"); {
						case k < 2 && i == 0 && j == 0 || k < 1:
							// only the first addition creates the function (and starts the heartbeat)
							kind := "start"
							if d.adding {
								kind = "query"
								if !d.added {
									d.ambig = true
								}
							}
							d.adding = true
							d.op(w, kind, "AddFunctionType(heartbeat)", func() {
								d.diag.F.AddFunctionType(model.FunctionTypeDeviceDiagnosisHeartbeatData, true, false)
							})
							if kind == "start" {
								d.added = true
							}
						case k < 5:
							kind := "start"
							if !d.adding {
								// the heartbeat function does not exist yet: nothing to run, and no panic
								kind = "query"
								d.ambig = true // what "running" means without a heartbeat function is left open
								w.Probe("c16-start-before-function-added")
							} else if !d.added {
								d.ambig = true
							}
							d.op(w, kind, "StartHeartbeat", func() { _ = hbm.StartHeartbeat() })
							if kind == "query" && d.adding {
								d.ambig = true
							}
						case k < 8:
							d.op(w, "stop", "StopHeartbeat", func() { hbm.StopHeartbeat() })
						case k < 10:
							o := d.op(w, "query", "IsHeartbeatRunning", func() {})
							o.running = hbm.IsHeartbeatRunning()
							o.ret = w.Logf("IsHeartbeatRunning -> %v", o.running)
						case k < 11:
							if w.T.Bool(1, 3, "remove-entity") {
								d.removed = true
								d.op(w, "stop", "RemoveEntity", func() { pr.L.RemoveEntity(le) })
							}
						}
						// let simulated time pass: fractions and multiples of the timeout
						f := []int{0, 0, 1, 3, 10, 25}[w.T.Choose(6, "pause")]
						if f > 0 {
							w.Sleep(d.tau * time.Duration(f) / 10)
						}
					}
				})
			}
			// afterwards: whatever the final state, let three timeouts pass
			w.Go("observer", func() {
				simrt.WaitUntil("apps-done", func() bool { return w.scriptsDone("app") })
				w.Logf("observer: all operations returned")
				w.Sleep(3*d.tau + time.Second)
				w.Logf("observer: done")
			})
			w.OnCleanup(func() { hbm.StopHeartbeat() })
		},
		Check: func(w *World) {
			d := w.scData.(*c16Data)
			_ = d.tau
			// (a) counters strictly increase, the announced timeout is the configured one
			stalled := w.Probes["clock-advanced-while-tasks-enabled"] > 0
			for i := 1; i < len(d.ref); i++ {
				// (a goroutine that is stalled for longer than a period between taking its counter and
				// publishing the data may be overtaken; without stalls the order is strict)
				if d.ref[i].counter <= d.ref[i-1].counter && !stalled && !d.ambig {
					w.Violate("C16/heartbeat-counter-not-increasing", "refresh at %v carries counter %d after %d", d.ref[i].at, d.ref[i].counter, d.ref[i-1].counter)
				}
			}
			for i, r := range d.ref {
				w.Probe("c16-refresh-observed")
				// (b) current timestamp: never from the future, never older than the previous one; and
				// when no task was ever stalled while the clock moved, the fake clock at sending time
				st := r.stamp.Sub(w.Start)
				if r.stamp.IsZero() || st > r.at+time.Second {
					w.Violate("C16/heartbeat-timestamp-not-current", "refresh sent at +%v carries timestamp +%v", r.at, st)
				}
				if !stalled && st < r.at-time.Second {
					w.Violate("C16/heartbeat-timestamp-not-current", "refresh sent at +%v carries timestamp +%v", r.at, st)
				}
				_ = i
			}
			// (c) while certainly running, consecutive refreshes are at most the timeout apart
			type span struct{ from, to time.Duration }
			var spans []span
			// build spans of certain running from the operation history in time order of returns
			endSeq := w.Seq
			for _, o := range d.ops {
				if o.kind != "start" || o.ret == 0 || d.ambig {
					continue
				}
				// certainly running from the return of o until the next operation is invoked
				ok := true
				to := w.Now()
				var nextInv uint64
				for _, x := range d.ops {
					if x.kind == "query" || x == o {
						continue
					}
					if x.invoke < o.ret && (x.ret == 0 || x.ret > o.invoke) {
						ok = false // overlapped the start
					}
					if x.invoke > o.ret && (nextInv == 0 || x.invoke < nextInv) {
						nextInv, to = x.invoke, x.tInvoke
					}
				}
				if ok {
					spans = append(spans, span{o.tRet, to})
				}
			}
			// the bound is what the refreshes themselves announce as their timeout (read with the
			// harness's own reading of xs:duration); a configured timeout that the announcement cannot
			// express exactly (150 ms is announced as PT0.1S) does not widen it (seed C16-g)
			bound := d.tau
			for _, r := range d.ref {
				a, ok := parseXSDuration(r.timeout)
				if !ok {
					w.Violate("C16/announced-timeout-unreadable", "a refresh announces the timeout %q", r.timeout)
					return
				}
				if a > d.tau {
					w.Violate("C16/announced-timeout-exceeds-configured", "a refresh announces the timeout %q, configured %v", r.timeout, d.tau)
					return
				}
				if a < bound {
					bound = a
					w.Probe("c16-announced-timeout-below-configured")
				}
			}
			for _, s := range spans {
				if s.to-s.from <= d.tau || stalled {
					continue
				}
				w.Probe("c16-running-span-checked")
				prev := s.from
				for _, r := range d.ref {
					if r.at < s.from || r.at > s.to {
						continue
					}
					if r.at-prev > bound+time.Millisecond {
						w.Violate("C16/heartbeat-gap-exceeds-timeout", "running with timeout %v (announced %v): no refresh between +%v and +%v", d.tau, bound, prev, r.at)
					}
					prev = r.at
				}
				if s.to-prev > bound+time.Millisecond {
					w.Violate("C16/heartbeat-gap-exceeds-timeout", "running with timeout %v (announced %v): no refresh between +%v and +%v", d.tau, bound, prev, s.to)
				}
			}
			// (d) never two streams: in any window of one period at most 2 refreshes can leave
			// (one stream: <=1 per period plus an immediate one at a restart is not periodic)
			perLen := d.tau
			if perLen > 2*time.Second {
				perLen -= 2 * time.Second
			}
			// count live heartbeat goroutines at the end
			live := 0
			for _, t := range w.S.Tasks() {
				if strings.Contains(t.Loc, "heartbeat_manager.go") && t.Kind == "go" && !t.Done() {
					live++
				}
			}
			final := d.state(endSeq + 1)
			if d.ambig {
				final = -1
			}
			if live > 1 {
				w.Violate("C16/two-heartbeat-streams", "%d heartbeat goroutines are alive after all operations returned", live)
			}
			if final == 0 && live != 0 {
				w.Violate("C16/heartbeat-alive-after-stop", "%d heartbeat goroutine(s) alive although the last operation was a stop", live)
			}
			if final == 1 && live != 1 {
				w.Violate("C16/heartbeat-not-running-after-start", "%d heartbeat goroutines alive although the last operation was a start", live)
			}
			// (e) after stop / removal returned: at most one more refresh
			var lastStop *c16Op
			for _, o := range d.ops {
				if o.kind != "query" && o.ret != 0 && (lastStop == nil || o.ret > lastStop.ret) {
					lastStop = o
				}
			}
			if final == 0 && lastStop != nil && lastStop.kind == "stop" {
				n := 0
				for _, r := range d.ref {
					if r.seq > lastStop.ret {
						n++
					}
				}
				if n > 1 {
					w.Violate("C16/refreshes-after-stop", "%d refreshes were notified after %s had returned", n, lastStop.what)
				}
				w.Probe("c16-stopped-at-end-checked")
			}
			// (g) IsHeartbeatRunning agrees with the history where it is determinate
			for _, o := range d.ops {
				if o.what != "IsHeartbeatRunning" || d.ambig {
					continue
				}
				st := d.state(o.invoke)
				if st == 1 && d.state(o.ret) == 1 && !o.running {
					w.Violate("C16/is-running-false-while-running", "IsHeartbeatRunning returned false while the heartbeat was running; history: %s", d.history())
				}
				if st == 0 && d.state(o.ret) == 0 && o.running {
					w.Violate("C16/is-running-true-while-stopped", "IsHeartbeatRunning returned true while the heartbeat was stopped; history: %s", d.history())
				}
			}
			w.State(fmt.Sprint(len(d.ops), len(d.ref), final, live))
		},
	})
}

// parseXSDuration reads the subset of xs:duration a heartbeat timeout uses: PT[nH][nM][n[.f]S].
//
//go:norace
func parseXSDuration(x string) (time.Duration, bool) {
	if len(x) < 3 || x[0] != 'P' || x[1] != 'T' {
		return 0, false
	}
	var total time.Duration
	num := ""
	for _, c := range x[2:] {
		switch {
		case (c >= '0' && c <= '9') || c == '.':
			num += string(c)
		case c == 'H' || c == 'M' || c == 'S':
			var v float64
			if _, err := fmt.Sscanf(num, "%g", &v); err != nil {
				return 0, false
			}
			unit := map[rune]time.Duration{'H': time.Hour, 'M': time.Minute, 'S': time.Second}[c]
			total += time.Duration(v*1e6+0.5) * (unit / 1e6)
			num = ""
		default:
			return 0, false
		}
	}
	return total, num == ""
}
