package harness

import (
	"fmt"
	"reflect"
	"time"

	"github.com/enbility/spine-go/model"
	"github.com/enbility/spine-go/util"

	"verifsim/simrt"
)

// C04, variant "write-races-local-protection" (seed C04-g): while a bound peer's partial write
// that addresses one changeable element X is handled, the application write-protects X with a
// local partial update that carries every element of X (flag = false). Whatever the
// interleaving, the two updates take effect one after the other:
//   write first  - it is applied (success), then the local update overwrites X and protects it;
//   local first  - X is protected, the write is refused (error result), nothing changes.
// The list ends as one of these two histories says (together with the matching result), X is
// protected either way; and a write that was acknowledged with success cannot have been handled
// entirely after the local update had returned.

func init() {
	Register(&Scenario{
		Prop: "C04", Name: "write-races-local-protection",
		NonTrivial: []string{"c04c-race-checked"},
		Build: func(w *World) {
			info := fnByName[c04Functions[w.T.Choose(len(c04Functions), "function")]]
			ft := featureTypeOf(info.Fn)
			L := w.NewNode("L", "d:_i:L", model.NetworkManagementFeatureSetTypeSmart)
			le := L.NewLocalEntity([]uint{1}, model.EntityTypeTypeCEM, 4*time.Second)
			srv := le.AddFeature(ft, model.RoleTypeServer, PFunc{info.Fn, true, true})
			L.AddEntity(le)
			p := w.NewPeer("P1", "d:_i:P1", L)
			pe := p.AddEntity([]uint{1}, model.EntityTypeTypeEVSE, "")
			cf := pe.AddFeature(1, ft, model.RoleTypeClient)
			p.Connect()
			yes, no := true, false
			nk := len(shapeOf(info.ItemType).Keys)
			idsOf := func(i uint) []uint {
				ids := make([]uint, nk)
				ids[0] = i
				return ids
			}
			// the stored list: three elements, all changeable
			var items []reflect.Value
			for i := uint(0); i < 3; i++ {
				items = append(items, w.GenItem(info.ItemType, idsOf(i), 3, 4, &yes))
			}
			init := GenList(info, items)
			srv.F.SetData(info.Fn, init)
			x := uint(w.T.Choose(3, "element"))
			rounds := 1 + w.T.Choose(3, "rounds")
			w.Go("history", func() {
				p.AwaitDiscovery()
				p.Await(p.SendBind(cf, srv.Address(), ft, false, "bind"))
				for r := 0; r < rounds; r++ {
					before := absOf(info, srv.F.DataCopy(info.Fn))
					// the application's update: every element of X, flag false
					ldata := GenList(info, []reflect.Value{w.GenItem(info.ItemType, idsOf(x), 1, 1, &no)})
					// the peer's write: some elements of X, no flag
					wdata := GenList(info, []reflect.Value{w.GenItem(info.ItemType, idsOf(x), 1, 2, nil)})
					cmd := model.CmdType{}
					SetCmdData(&cmd, info.Fn, wdata)
					cmd.Function = util.Ptr(info.Fn)
					cmd.Filter = []model.FilterType{*MakeFilter(info, "partial", nil, nil)}
					var lInvoke, lRet uint64
					done := false
					w.Go(fmt.Sprintf("app-protects-%d", r), func() {
						for k := w.T.Choose(12, "protect-delay"); k > 0; k-- {
							w.Yield("protect-delay")
						}
						lInvoke = w.Logf("invoke local UpdateData protecting element %d", x)
						e := srv.F.UpdateData(info.Fn, ldata, MakeFilter(info, "partial", nil, nil), nil)
						lRet = w.Logf("return local UpdateData err=%v", e != nil)
						done = true
					})
					ctr := p.SendCmd(cf.Address(), srv.Address(), model.CmdClassifierTypeWrite, util.Ptr(true), cmd, "write-racing")
					p.Await(ctr)
					simrt.WaitUntil("local-update-done", func() bool { return done })
					okRes, answered := false, false
					for _, s := range p.Responses(ctr) {
						if isRes, e := IsResult(s); isRes {
							okRes, answered = e == 0, true
						}
					}
					after := absOf(info, srv.F.DataCopy(info.Fn))
					lu := absUpdate{data: absOf(info, ldata), hasPartial: true, desc: "local"}
					wu := absUpdate{data: absOf(info, wdata), hasPartial: true, desc: "write"}
					localFirst := absFold(info, before, lu)                    // ... and the write refused
					writeFirst := absFold(info, absFold(info, before, wu), lu) // ... and the write acknowledged
					detail := fmt.Sprintf("%s element %d\nbefore:\n%s\nlocal update (protects):\n%s\nremote write (result answered=%v ok=%v):\n%s\nafter:\n%s\nwrite first (success):\n%s\nlocal first (error):\n%s",
						info.Fn, x, before.canon(), absOf(info, ldata).canon(), answered, okRes, absOf(info, wdata).canon(), after.canon(), writeFirst.canon(), localFirst.canon())
					w.Probe("c04c-race-checked")
					if !answered {
						w.Violate("C04/write-not-answered/racing", "%s", detail)
						return
					}
					if !(okRes && after.canon() == writeFirst.canon()) && !(!okRes && after.canon() == localFirst.canon()) {
						w.Violate("C04/protected-element-modified/write-racing-with-local-protection", "%s", detail)
						return
					}
					// the write was handled entirely after the protection had returned: it must be refused
					var del *Delivery
					for _, d := range p.DeliveriesOf(ctr) {
						if d.Done && !d.Dup {
							del = d
						}
					}
					if del != nil && del.Begin > lRet && okRes {
						w.Violate("C04/write-to-protected-element-accepted/after-local-protection", "the write was handled at [%d,%d], the protecting update had returned at %d\n%s", del.Begin, del.End, lRet, detail)
						return
					}
					if del != nil && del.Begin < lRet && del.End > lInvoke {
						w.Probe("c04c-write-overlapped-local-update")
					}
					// next round: the application makes X changeable again
					re := GenList(info, []reflect.Value{w.GenItem(info.ItemType, idsOf(x), 1, 2, &yes)})
					_ = srv.F.UpdateData(info.Fn, re, MakeFilter(info, "partial", nil, nil), nil)
				}
				w.State(absOf(info, srv.F.DataCopy(info.Fn)).canon())
			})
		},
	})
}
