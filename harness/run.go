package harness

import (
	"encoding/json"
	"fmt"
	"os"
	"sort"
	"strings"
	"testing"
	"testing/synctest"
	"time"

	"github.com/enbility/spine-go/spine"

	"verifsim/simrt"
)

// Scenario is one workload + oracle for a property.
type Scenario struct {
	Prop       string
	Name       string
	Build      func(w *World)
	Check      func(w *World)
	Settle     func(w *World) // after the main phase, faults off, before the drain: enqueue post-fault probes
	NonTrivial []string       // a run is non-trivial if one of these probes fired (and see RunResult.NonTrivial)
	Weight     int            // relative share of runs (default 1)
	Race       bool           // meaningful only in the race build
	NoRace     bool           // skip in the race build
	// DeadlockDirected: runs that show a lock-order candidate are re-executed with the
	// deadlock-directed scheduler (directed.go)
	DeadlockDirected bool
}

var registry = map[string][]*Scenario{}

func Register(s *Scenario) {
	if s.Weight == 0 {
		s.Weight = 1
	}
	registry[s.Prop] = append(registry[s.Prop], s)
}

func variantsFor(prop string) []*Scenario {
	var out []*Scenario
	for _, s := range registry[prop] {
		if simrt.RaceBuild && s.NoRace {
			continue
		}
		if !simrt.RaceBuild && s.Race {
			continue
		}
		for i := 0; i < s.Weight; i++ {
			out = append(out, s)
		}
	}
	return out
}

func scenarioByName(prop, name string) *Scenario {
	for _, s := range registry[prop] {
		if s.Name == name {
			return s
		}
	}
	return nil
}

// RunResult is what one simulated run reports.
type RunResult struct {
	Prop       string            `json:"prop"`
	Variant    string            `json:"variant"`
	RunIndex   int               `json:"run_index"`
	RunSeed    uint64            `json:"run_seed"`
	TapeLen    int               `json:"tape_len"`
	Tape       TapeData          `json:"tape,omitempty"`
	LogHash    string            `json:"log_hash"`
	Violations []Violation       `json:"violations,omitempty"`
	Probes     map[string]int    `json:"probes,omitempty"`
	Faults     map[string]int    `json:"faults,omitempty"`
	Steps      int               `json:"steps"`
	Preempts   int               `json:"preempts"`
	Advances   int               `json:"advances"`
	Tasks      int               `json:"tasks"`
	SimUs      int64             `json:"sim_us"`
	States     int               `json:"states"`
	NonTrivial bool              `json:"nontrivial"`
	Strategy   int               `json:"strategy"`
	WallUs     int64             `json:"wall_us"`
	Log        []string          `json:"log,omitempty"`
	Labels     []string          `json:"labels,omitempty"`
	ToolErr    string            `json:"tool_err,omitempty"`
	Race       bool              `json:"race_build"`
	StateKeys  []string          `json:"-"`
	LockCycles []simrt.LockCycle `json:"-"`
}

// runOnce executes one run of scenario sc driven by tape inside a fresh synctest bubble.
func runOnce(t *testing.T, sc *Scenario, tape *Tape, keepLog bool) (res RunResult) {
	return runOnceOpt(t, sc, tape, keepLog, nil)
}

// runOnceOpt: dir != nil makes the run a deadlock-directed re-execution (directed.go).
func runOnceOpt(t *testing.T, sc *Scenario, tape *Tape, keepLog bool, dir *directedCfg) (res RunResult) {
	res.Prop, res.Variant, res.Race = sc.Prop, sc.Name, simrt.RaceBuild
	wall := time.Now()
	defer func() {
		if r := recover(); r != nil {
			res.ToolErr = fmt.Sprintf("bubble: %v", r)
		}
		res.WallUs = time.Since(wall).Microseconds()
	}()
	// The bubble is entered from a helper goroutine: when the race detector reports something
	// inside a bubble, the testing package aborts the goroutine that called synctest.Test
	// (runtime.Goexit "up the chain"); the worker loop must survive that.
	bubble := func(f func(t *testing.T)) {
		done := make(chan struct{})
		go func() {
			defer close(done)
			defer func() {
				if r := recover(); r != nil {
					res.ToolErr = fmt.Sprintf("bubble: %v", r)
				}
			}()
			synctest.Test(t, f)
		}()
		<-done
	}
	bubble(func(t *testing.T) {
		w := newWorld(sc.Prop, tape)
		w.KeepLog = keepLog
		w.dir = dir
		tape.Trace = keepLog
		w.Start = time.Now()
		w.S = simrt.New()
		w.S.OnSpawn = w.onSpawn
		tape.Phase = "build"
		defer func() {
			// whatever happens, leave no parked goroutine behind
			rec := recover()
			w.S.BeginAbort()
			for _, f := range w.cleanup {
				func() {
					defer func() { _ = recover() }()
					f()
				}()
			}
			w.S.AbortAll()
			w.S.Uninstall()
			if rec != nil {
				if ob, ok := rec.(simrt.ObserverBlocked); ok {
					res.ToolErr = fmt.Sprintf("observer blocked: %v", ob)
				} else {
					res.ToolErr = fmt.Sprintf("harness panic: %v\n%s", rec, trimStack(stackNow()))
				}
			}
			fillResult(&res, w, sc)
		}()
		spine.VerifResetEvents()
		treeShowPartial = false
		w.initStrategy()
		sc.Build(w)
		tape.Phase = "sched"
		w.S.Quiesce()
		w.RunMain()
		if _, adv := w.canAdvance(); w.lockStuck || (!adv && len(w.enabled()) == 0 && w.lockBlocked()) {
			// a deadlock: report it before anything else touches the stack
			w.CheckNoDeadlock()
		}
		if sc.Settle != nil && !w.stopNow {
			w.FaultsOn = false
			w.Drain()
			sc.Settle(w)
		}
		w.Drain()
		if !w.stopNow {
			w.CheckNoDeadlock()
		}
		if sc.Check != nil && !w.stopNow {
			sc.Check(w)
		}
	})
	return
}

func stackNow() string {
	buf := make([]byte, 16<<10)
	n := runtimeStack(buf)
	return string(buf[:n])
}

func fillResult(res *RunResult, w *World, sc *Scenario) {
	res.TapeLen = w.T.Len()
	res.Tape = w.T.Data()
	res.LogHash = w.LogHash()
	res.Violations = w.Viol
	res.Probes = w.Probes
	res.Faults = w.Faults
	res.Steps = w.Steps
	res.Preempts = w.Preempts
	res.Advances = w.Advances
	res.Tasks = len(w.S.Tasks())
	res.SimUs = w.Now().Microseconds()
	res.States = len(w.States)
	res.Strategy = w.strat
	res.Log = w.Log
	res.Labels = w.T.Labels
	if sc.DeadlockDirected && w.dir == nil {
		res.LockCycles = w.S.LockCycles()
	}
	for k := range w.States {
		res.StateKeys = append(res.StateKeys, k)
	}
	hit := len(sc.NonTrivial) == 0
	for _, p := range sc.NonTrivial {
		if w.Probes[p] > 0 {
			hit = true
		}
	}
	res.NonTrivial = hit && (w.Steps > 0)
}

func splitmix(x uint64) uint64 {
	x += 0x9e3779b97f4a7c15
	x = (x ^ (x >> 30)) * 0xbf58476d1ce4e5b9
	x = (x ^ (x >> 27)) * 0x94d049bb133111eb
	return x ^ (x >> 31)
}

// RunSeedFor derives the seed of run index i of a property from VERIF_SEED.
func RunSeedFor(base uint64, prop string, i int) uint64 {
	return splitmix(splitmix(base^fnv64(prop)) + uint64(i)*0x9e3779b97f4a7c15)
}

// ---------------------------------------------------------------------------------------
// minimisation: internal reduction on the tape

func hasSig(r RunResult, sig string) bool {
	for _, v := range r.Violations {
		if v.Signature == sig {
			return true
		}
	}
	return false
}

func shrink(t *testing.T, sc *Scenario, tape TapeData, sig string, maxTries int, budget time.Duration) (TapeData, int) {
	start := time.Now()
	tries := 0
	cur := tape.Clone()
	out := func() bool { return tries >= maxTries || time.Since(start) > budget }
	// try replaces stream k by c and keeps the result if the same signature still fires
	try := func(k string, c []uint32) bool {
		if out() {
			return false
		}
		tries++
		cand := cur.Clone()
		if len(c) == 0 {
			delete(cand, k)
		} else {
			cand[k] = c
		}
		r := runOnce(t, sc, NewTapeReplay(cand), false)
		if r.ToolErr == "" && hasSig(r, sig) {
			n := r.Tape // what was actually consumed, trailing zeros stripped
			if n.Len() <= cand.Len() {
				cur = n.Clone()
			} else {
				cur = cand
			}
			return true
		}
		return false
	}
	for round := 0; round < 6 && !out(); round++ {
		before, sumBefore := cur.Len(), cur.Sum()
		// whole streams first
		for _, k := range cur.Keys() {
			if _, ok := cur[k]; ok {
				try(k, nil)
			}
		}
		for _, k := range cur.Keys() {
			// 1. shortest failing prefix of the stream (past-the-end choices are 0)
			lo, hi := 0, len(cur[k])
			for lo < hi && !out() {
				mid := (lo + hi) / 2
				if mid < len(cur[k]) && try(k, append([]uint32(nil), cur[k][:mid]...)) {
					hi = len(cur[k])
					if hi > mid {
						hi = mid
					}
				} else {
					lo = mid + 1
				}
			}
			// 2. zero chunks, large to small (0 = simplest choice; does not shift later choices)
			for size := (len(cur[k]) + 1) / 2; size >= 1 && !out(); size /= 2 {
				for i := 0; i < len(cur[k]) && !out(); i += size {
					end := i + size
					if end > len(cur[k]) {
						end = len(cur[k])
					}
					allZero := true
					for _, v := range cur[k][i:end] {
						if v != 0 {
							allZero = false
						}
					}
					if allZero {
						continue
					}
					c := append([]uint32(nil), cur[k]...)
					for j := i; j < end; j++ {
						c[j] = 0
					}
					try(k, c)
				}
			}
			// 3. delete chunks, large to small
			for size := len(cur[k]) / 2; size >= 1 && !out(); size /= 2 {
				for i := 0; i+size <= len(cur[k]) && !out(); {
					c := append(append([]uint32(nil), cur[k][:i]...), cur[k][i+size:]...)
					if !try(k, c) {
						i += size
					}
				}
			}
			// 4. lower single values
			for i := 0; i < len(cur[k]) && !out(); i++ {
				if cur[k][i] > 1 {
					c := append([]uint32(nil), cur[k]...)
					c[i] = cur[k][i] / 2
					try(k, c)
				}
			}
		}
		if cur.Len() == before && cur.Sum() == sumBefore {
			break
		}
	}
	return cur, tries
}

// ---------------------------------------------------------------------------------------
// replay files

type ReplayFile struct {
	Property  string   `json:"property"`
	Variant   string   `json:"variant"`
	Signature string   `json:"signature"`
	Detail    string   `json:"detail"`
	VerifSeed uint64   `json:"verif_seed"`
	RunIndex  int      `json:"run_index"`
	RunSeed   uint64   `json:"run_seed"`
	Race      bool     `json:"race_build"`
	StmtFiles string   `json:"stmt_files"`
	Tape      TapeData `json:"tape"`
	OrigLen   int      `json:"original_tape_len"`
	Shrinks   int      `json:"shrink_executions"`
	LogHash   string   `json:"log_hash"`
	Toolchain string   `json:"toolchain"`
	Schedule  []string `json:"schedule"` // decoded schedule and fault trace (the canonical event log)
	Choices   []string `json:"choices"`  // decoded tape: label=value/alternatives
}

// ---------------------------------------------------------------------------------------
// worker entry (called from TestSim)

type workerCfg struct {
	Prop      string
	Seed      uint64
	Runs      int
	Worker    int
	Workers   int
	Out       string
	BudgetS   float64
	Replay    string
	Variant   string
	StmtFiles string
	RecheckN  int // re-execute every n-th run and compare hashes (0 = never)
	MaxViol   int
	Dump      bool
}

func envInt(k string, def int) int {
	if v := os.Getenv(k); v != "" {
		var x int
		fmt.Sscan(v, &x)
		return x
	}
	return def
}

func envU64(k string, def uint64) uint64 {
	if v := os.Getenv(k); v != "" {
		var x uint64
		fmt.Sscan(v, &x)
		return x
	}
	return def
}

// WorkerMain runs the slice of runs assigned to this worker process and writes one JSON
// line per run to VERIF_OUT.
func WorkerMain(t *testing.T) {
	cfg := workerCfg{
		Prop:      os.Getenv("VERIF_PROP"),
		Seed:      envU64("VERIF_SEED", 1),
		Runs:      envInt("VERIF_RUNS", 100),
		Worker:    envInt("VERIF_WORKER", 0),
		Workers:   envInt("VERIF_WORKERS", 1),
		Out:       os.Getenv("VERIF_OUT"),
		Replay:    os.Getenv("VERIF_REPLAY"),
		Variant:   os.Getenv("VERIF_VARIANT"),
		StmtFiles: os.Getenv("VERIF_STMT"),
		RecheckN:  envInt("VERIF_RECHECK", 50),
		MaxViol:   envInt("VERIF_MAXVIOL", 8),
		Dump:      os.Getenv("VERIF_DUMP") != "",
	}
	var b float64
	fmt.Sscan(os.Getenv("VERIF_BUDGET_S"), &b)
	cfg.BudgetS = b
	if cfg.Prop == "" {
		t.Skip("VERIF_PROP not set")
	}
	var out *os.File
	if cfg.Out != "" {
		f, err := os.Create(cfg.Out)
		if err != nil {
			t.Fatal(err)
		}
		defer f.Close()
		out = f
	} else {
		out = os.Stdout
	}
	enc := json.NewEncoder(out)

	if cfg.Replay != "" {
		replayMain(t, cfg, enc)
		return
	}
	if f := os.Getenv("VERIF_SHRINK"); f != "" {
		shrinkMain(t, f, enc)
		return
	}
	vars := variantsFor(cfg.Prop)
	if len(vars) == 0 {
		enc.Encode(map[string]any{"worker_done": true, "worker": cfg.Worker, "runs": 0, "note": "no variants for this build"})
		return
	}
	start := time.Now()
	seenSig := map[string]bool{}
	triedCycle := map[string]int{}
	nviol := 0
	done := 0
	for i := cfg.Worker; i < cfg.Runs; i += cfg.Workers {
		if cfg.BudgetS > 0 && time.Since(start).Seconds() > cfg.BudgetS {
			break
		}
		sc := vars[i%len(vars)]
		if cfg.Variant != "" && sc.Name != cfg.Variant {
			continue
		}
		seed := RunSeedFor(cfg.Seed, cfg.Prop, i)
		res := runOnce(t, sc, NewTapeSeed(seed), cfg.Dump)
		res.RunIndex, res.RunSeed = i, seed
		done++
		if cfg.RecheckN > 0 && (i/cfg.Workers)%cfg.RecheckN == 0 && res.ToolErr == "" {
			again := runOnce(t, sc, NewTapeReplay(res.Tape), false)
			if again.LogHash != res.LogHash {
				res.ToolErr = fmt.Sprintf("determinism: re-execution of run %d diverged (%s vs %s)", i, res.LogHash, again.LogHash)
			}
			enc.Encode(map[string]any{"recheck": true, "run_index": i, "ok": again.LogHash == res.LogHash})
		}
		report := func(res RunResult) {
			if len(res.Violations) > 0 && res.ToolErr == "" {
				for _, v := range res.Violations {
					if seenSig[v.Signature] || nviol >= cfg.MaxViol {
						continue
					}
					seenSig[v.Signature] = true
					nviol++
					rf := ReplayFile{Property: cfg.Prop, Variant: sc.Name, Signature: v.Signature, Detail: v.Detail, VerifSeed: cfg.Seed, RunIndex: i, RunSeed: seed,
						Race: simrt.RaceBuild, StmtFiles: cfg.StmtFiles, Tape: res.Tape.Clone(), OrigLen: res.Tape.Len(), LogHash: res.LogHash,
						Toolchain: goVersion()}
					enc.Encode(map[string]any{"replay": rf})
				}
			}
			res.Tape = nil
			if !cfg.Dump {
				res.Log, res.Labels = nil, nil
			}
			enc.Encode(map[string]any{"run": res, "state_keys": hexKeys(res.StateKeys)})
		}
		// deadlock-directed re-executions of this run, one per lock-order candidate it showed
		var directed []RunResult
		if sc.DeadlockDirected && res.ToolErr == "" && len(res.Violations) == 0 {
			for _, c := range res.LockCycles {
				if triedCycle[c.Key()] >= 8 {
					continue
				}
				triedCycle[c.Key()]++
				tp := NewTapeReplay(res.Tape)
				tp.Override = directedOverride()
				dres := runOnceOpt(t, sc, tp, false, newDirected(c, seed+uint64(triedCycle[c.Key()])))
				dres.RunIndex, dres.RunSeed = i, seed
				if dres.Probes == nil {
					dres.Probes = map[string]int{}
				}
				dres.Probes["deadlock-directed-run"]++
				if len(dres.Violations) > 0 && dres.ToolErr == "" {
					// the tape a directed run leaves must replay under the ordinary policy
					again := runOnce(t, sc, NewTapeReplay(dres.Tape), false)
					if again.LogHash != dres.LogHash {
						dres.ToolErr = fmt.Sprintf("directed run %d (%s) does not replay under the ordinary policy (%s vs %s)", i, c.Key(), dres.LogHash, again.LogHash)
					}
				}
				directed = append(directed, dres)
			}
			if len(res.LockCycles) > 0 {
				if res.Probes == nil {
					res.Probes = map[string]int{}
				}
				res.Probes["lock-order-candidate-seen"] += len(res.LockCycles)
			}
		}
		report(res)
		for _, d := range directed {
			report(d)
		}
	}
	enc.Encode(map[string]any{"worker_done": true, "worker": cfg.Worker, "runs": done, "wall_s": time.Since(start).Seconds(), "race_errors": simrt.RaceErrors()})
}

func hexKeys(k []string) []string {
	out := make([]string, len(k))
	for i, s := range k {
		out[i] = fmt.Sprintf("%x", s)
	}
	sort.Strings(out)
	return out
}

func replayMain(t *testing.T, cfg workerCfg, enc *json.Encoder) {
	data, err := os.ReadFile(cfg.Replay)
	if err != nil {
		t.Fatal(err)
	}
	var rf ReplayFile
	if err := json.Unmarshal(data, &rf); err != nil {
		t.Fatal(err)
	}
	sc := scenarioByName(rf.Property, rf.Variant)
	if sc == nil {
		enc.Encode(map[string]any{"replay_result": "unknown-variant", "variant": rf.Variant})
		return
	}
	res := runOnce(t, sc, NewTapeReplay(rf.Tape), true)
	if os.Getenv("VERIF_REPLAY_TWICE") != "" {
		// (diagnosis of first-run-in-a-process effects: print both logs)
		second := runOnce(t, sc, NewTapeReplay(rf.Tape), true)
		for _, l := range res.Log {
			fmt.Fprintln(os.Stderr, "A "+l)
		}
		for _, l := range second.Log {
			fmt.Fprintln(os.Stderr, "B "+l)
		}
	}
	status := "not-reproduced"
	if hasSig(res, rf.Signature) {
		status = "reproduced"
		if res.LogHash != rf.LogHash {
			status = "reproduced-log-differs"
		}
	}
	var sigs []string
	for _, v := range res.Violations {
		sigs = append(sigs, v.Signature)
	}
	enc.Encode(map[string]any{"replay_result": status, "signature": rf.Signature, "log_hash": res.LogHash, "expected_log_hash": rf.LogHash,
		"violations": res.Violations, "tool_err": res.ToolErr, "sigs": strings.Join(sigs, ",")})
	if cfg.Dump {
		for _, l := range res.Log {
			fmt.Fprintln(os.Stderr, l)
		}
	}
}

// shrinkMain minimises the tape of a candidate replay file and emits the final replay file
// (with decoded schedule) as a "replay" line.
func shrinkMain(t *testing.T, path string, enc *json.Encoder) {
	data, err := os.ReadFile(path)
	if err != nil {
		t.Fatal(err)
	}
	var rf ReplayFile
	if err := json.Unmarshal(data, &rf); err != nil {
		t.Fatal(err)
	}
	sc := scenarioByName(rf.Property, rf.Variant)
	if sc == nil {
		t.Fatalf("unknown variant %s", rf.Variant)
	}
	budget := 90 * time.Second
	if v := envInt("VERIF_SHRINK_S", 0); v > 0 {
		budget = time.Duration(v) * time.Second
	}
	min, tries := shrink(t, sc, rf.Tape, rf.Signature, 4000, budget)
	full := runOnce(t, sc, NewTapeReplay(min), true)
	if !hasSig(full, rf.Signature) {
		// keep the original tape: it is the one that was observed to fail
		full = runOnce(t, sc, NewTapeReplay(rf.Tape), true)
		min = rf.Tape
	}
	rf.Tape, rf.Shrinks, rf.LogHash, rf.Schedule, rf.Choices = min, tries, full.LogHash, full.Log, full.Labels
	for _, fv := range full.Violations {
		if fv.Signature == rf.Signature {
			rf.Detail = fv.Detail
		}
	}
	enc.Encode(map[string]any{"replay": rf, "reproduced": hasSig(full, rf.Signature)})
}
