package harness

import (
	"fmt"
	"reflect"
	"strings"

	"github.com/enbility/spine-go/api"
	"github.com/enbility/spine-go/model"

	"verifsim/simrt"
)

// MIRROR family — two real nodes ("L" and "R", each a spine.DeviceLocal) connected to each other
// through the simulated transport: what one node writes to its connection is queued for the
// other node's read pump (reliable and in order, as SHIP is; the scheduler decides every
// interleaving of the two read pumps with the application tasks of both sides). Faults: the link
// is dropped (each side removes its connection at its own moment, what was in flight to a side
// that has already closed is lost) and set up again (conn.drop / conn.restart), tasks stall, the
// clock advances. No scripted peer takes part: requests, replies, notifications, results and
// discovery data are all produced and consumed by real code.
//
// One workload, five registrations; each registration evaluates the oracles of its property:
//   C06 mirror-tree        the remote view either node holds of the other equals the harness's
//                          record of the other's local tree (entities added/removed, use cases
//                          changed while connected, link dropped and set up again)
//   C08 mirror-replication a client that subscribed and read holds, once traffic has drained,
//                          what the server's function holds (local updates of the server's
//                          application and writes of the bound client, every change notified once)
//   C10 mirror-teardown    after a drop nothing of the other node is left on either side
//   C14 mirror-callbacks   every request of a client application (read, write, subscribe, bind)
//                          whose link stayed up has its response callback invoked exactly once,
//                          with the request's counter as reference
//   C01 mirror-responses   every read / acknowledged message one node handled was answered by
//                          exactly one datagram referencing it; counters of one direction unique

type mSide struct {
	N       *Node
	Other   *mSide
	In      *Conn // the connection at N (inbound half: what Other sent; Out: what N wrote)
	Ent     *LEnt
	Extra   *LEnt
	extraIn bool
	Servers []*LFeat
	Clients []*LFeat
	held    []mHeld
	reqs    []*mReq
	subs    []*mSub
	ucOps   int
}

type mHeld struct {
	raw []byte
	tag string
}

type mReq struct {
	side  *mSide
	gen   int
	kind  string
	fn    model.FunctionType
	ctr   uint64
	calls []mCall
	sent  uint64
	// reg: sequence number at which AddResponseCallback had returned (the counter is only known
	// once the request is on the wire, so the answer may be there first)
	reg     uint64
	refused bool
}

type mCall struct {
	seq   uint64
	ref   uint64
	errNo int // -1: no result data
}

type mSub struct {
	gen    int
	cli    *LFeat
	srv    *LFeat
	req    *mReq
	bind   *mReq
	reads  map[model.FunctionType]*mReq
	writes []*mReq
	// sequence numbers around the subscribe / bind calls of the client application
	callFrom, callTo uint64
	// checked: a removal has been evaluated against this call; overlapped: the call overlapped it
	checked, overlapped bool
}

type mLink struct {
	W          *World
	S          [2]*mSide
	Gen        int
	Up         bool
	Dead       bool // dropped and not set up again
	connecting bool
	dropping   bool
	treeBusy   int
	drops      int
	focus      string
	tornDown   bool // a teardown observation was made
}

//go:norace
func (l *mLink) forward(from *mSide, s *Sent) {
	ctr := uint64(0)
	if s.D != nil && s.D.Header.MsgCounter != nil {
		ctr = uint64(*s.D.Header.MsgCounter)
	}
	tag := fmt.Sprintf("%s#%d", from.N.Name, ctr)
	if l.connecting {
		from.held = append(from.held, mHeld{s.Raw, tag})
		return
	}
	if to := from.Other.In; to != nil {
		to.Push(s.Raw, tag)
	}
}

// connect sets the link up: each side gets its connection (in an order and at a distance the
// tape decides); what the first side wrote before the second one existed waits in the socket.
//
//go:norace
func (l *mLink) connect() {
	w := l.W
	l.Gen++
	l.connecting = true
	first := w.T.Choose(2, "connect-first")
	for k := 0; k < 2; k++ {
		s := l.S[(first+k)%2]
		s.N.Connect(s.Other.N.Name, func(x *Sent) { l.forward(s, x) }, func(c *Conn) { s.In = c })
		if k == 0 && simrt.Self() != nil {
			for y := w.T.Choose(4, "connect-gap"); y > 0; y-- {
				w.Yield("connect-gap")
			}
		}
	}
	l.connecting = false
	for _, s := range l.S {
		for _, h := range s.held {
			s.Other.In.Push(h.raw, h.tag)
		}
		s.held = nil
	}
	l.Up = true
	w.Logf("link up gen=%d", l.Gen)
}

//go:norace
func mIsDDReply(d *Delivery) bool {
	return d.D != nil && d.D.Header.CmdClassifier != nil && *d.D.Header.CmdClassifier == model.CmdClassifierTypeReply &&
		len(d.D.Payload.Cmd) > 0 && d.D.Payload.Cmd[0].NodeManagementDetailedDiscoveryData != nil
}

// stable: both sides are connected, each has handled the other's discovery reply and
// everything that followed from it (every message of the handshake is written while another one
// is being handled, so idle queues mean the handshake is over).
//
//go:norace
func (l *mLink) stable() bool {
	if !l.Up || l.dropping {
		return false
	}
	for _, s := range l.S {
		c := s.In
		if c == nil || c.Closed || len(c.Queue) > 0 || c.InFlight || c.Handling {
			return false
		}
		ok := false
		for _, d := range c.Del {
			if d.gen == c.Gen && d.Done && mIsDDReply(d) {
				ok = true
			}
		}
		if !ok {
			return false
		}
	}
	return true
}

// awaitStable parks until the link is stable (returns its generation) or dead (returns 0).
//
//go:norace
func (l *mLink) awaitStable() int {
	simrt.WaitUntil("link-stable", func() bool { return l.Dead || l.stable() })
	if l.Dead {
		return 0
	}
	return l.Gen
}

//go:norace
func (l *mLink) alive(gen int) bool { return l.Up && !l.dropping && l.Gen == gen }

//go:norace
func mirrorBuild(focus string) func(w *World) {
	return func(w *World) {
		l := &mLink{W: w, focus: focus}
		w.scData = l
		names := []string{"L", "R"}
		// server feature types of each side; the other side gets a client of each type
		pal := []int{0, 1, 2, 3} // LoadControl, DeviceConfiguration, Setpoint, Measurement
		for i := 0; i < 2; i++ {
			s := &mSide{N: w.NewNode(names[i], "d:_i:"+names[i], model.NetworkManagementFeatureSetTypeSmart)}
			// the teardown oracle is exact: a connection is removed when none of its own messages is
			// being handled (what a request overlapping the removal of its own connection leaves
			// behind is undecided, DESIGN 10.4)
			// (found with VERIF_SEED=2 in mirror-tree: the entry left behind is the node management
			// subscription of the *previous* connection; the next connection's request is then refused
			// as a duplicate and every later announcement goes to the dead connection - so all MIRROR
			// variants remove connections this way)
			s.N.QuiesceOwnTraffic = true
			l.S[i] = s
		}
		l.S[0].Other, l.S[1].Other = l.S[1], l.S[0]
		for i, s := range l.S {
			s.Ent = s.N.NewLocalEntity([]uint{1}, model.EntityTypeTypeCEM, 0)
			var types []model.FeatureTypeType
			for _, pi := range pal {
				if (i == 0 && pi == 0) || w.T.Bool(1, 2, "server-type") {
					types = append(types, serverPalette[pi].Type)
				}
			}
			for _, t := range types {
				s.Servers = append(s.Servers, s.Ent.AddFeature(t, model.RoleTypeServer, paletteFor(t)...))
			}
			l.S[1-i].Clients = nil // (filled below)
			s.N.AddEntity(s.Ent)
		}
		for i, s := range l.S {
			o := l.S[1-i]
			for _, sf := range o.Servers {
				s.Clients = append(s.Clients, s.Ent.AddFeature(sf.Type, model.RoleTypeClient))
			}
		}
		// initial data: every function of every server holds a few items (writable functions with
		// their elements marked changeable, so that a bound client may change them)
		yes := true
		for _, s := range l.S {
			for _, sf := range s.Servers {
				for _, pf := range sf.Funcs {
					info, ok := fnByName[pf.Fn]
					if !ok || !info.IsList {
						continue
					}
					data := GenList(info, genItems(w, info, 2+w.T.Choose(3, "n-initial"), 3, 4, func() *bool { return &yes }))
					sf.F.SetData(pf.Fn, data)
				}
			}
			if w.T.Bool(1, 2, "initial-use-case") {
				mUseCaseOp(w, s, 0)
			}
		}
		l.connect()
		for _, s := range l.S {
			mClientApp(w, l, s)
			mServerApp(w, l, s)
		}
		// the link fault
		if focus == "C10" || w.T.Bool(1, 2, "link-fault") {
			mLinkFault(w, l)
		}
	}
}

// mLinkFault starts the task that drops the link (each side removes its connection at its own
// moment) once or twice and mostly sets it up again.
//
//go:norace
func mLinkFault(w *World, l *mLink) {
	w.Go("link-fault", func() {
		n := 1 + w.T.Choose(2, "drops")
		for i := 0; i < n; i++ {
			if i == 0 || w.T.Bool(1, 2, "wait-stable-before-drop") {
				if l.awaitStable() == 0 {
					return
				}
			}
			for k := w.T.Choose(60, "drop-delay"); k > 0; k-- {
				w.Yield("drop-delay")
			}
			simrt.WaitUntil("no-tree-change", func() bool { return l.treeBusy == 0 })
			if !l.Up {
				return
			}
			l.dropping = true
			l.Up = false
			again := w.T.Bool(2, 3, "set-up-again")
			if !again {
				l.Dead = true
			}
			a := l.S[w.T.Choose(2, "drop-first")]
			w.Logf("fault conn.drop link gen=%d first=%s again=%v", l.Gen, a.N.Name, again)
			w.Fault("conn.drop")
			a.N.Disconnect(a.Other.N.Name)
			for k := w.T.Choose(6, "drop-gap"); k > 0; k-- {
				w.Yield("drop-gap")
			}
			a.Other.N.Disconnect(a.N.Name)
			l.drops++
			mTeardownCheck(w, l)
			if !again {
				l.dropping = false
				return
			}
			for k := w.T.Choose(10, "restart-delay"); k > 0; k-- {
				w.Yield("restart-delay")
			}
			w.Fault("conn.restart")
			l.connect()
			l.dropping = false
		}
	})
}

// mUseCaseOp adds, changes or removes a use case of the side's entity [1].
//
//go:norace
func mUseCaseOp(w *World, s *mSide, k int) {
	actors := []model.UseCaseActorType{model.UseCaseActorTypeCEM, model.UseCaseActorTypeEVSE}
	ucs := []model.UseCaseNameType{model.UseCaseNameTypeLimitationOfPowerConsumption, model.UseCaseNameTypeEVSECommissioningAndConfiguration, model.UseCaseNameTypeMonitoringOfPowerConsumption}
	a := actors[w.T.Choose(len(actors), "uc-actor")]
	u := ucs[w.T.Choose(len(ucs), "uc-name")]
	s.ucOps++
	switch w.T.Choose(4, "uc-op") {
	case 0, 1:
		sc := []model.UseCaseScenarioSupportType{1, model.UseCaseScenarioSupportType(2 + w.T.Choose(3, "uc-scenario"))}
		w.Logf("%s AddUseCaseSupport %s/%s", s.N.Name, a, u)
		s.Ent.E.AddUseCaseSupport(a, u, model.SpecificationVersionType(fmt.Sprintf("1.%d.0", w.T.Choose(3, "uc-version"))), "release", w.T.Bool(1, 2, "uc-available"), sc)
	case 2:
		w.Logf("%s RemoveUseCaseSupport %s/%s", s.N.Name, a, u)
		s.Ent.E.RemoveUseCaseSupport(a, u)
	default:
		if s.Ent.E.HasUseCaseSupport(a, u) {
			w.Logf("%s SetUseCaseAvailability %s/%s", s.N.Name, a, u)
			s.Ent.E.SetUseCaseAvailability(a, u, w.T.Bool(1, 2, "uc-available"))
		}
	}
}

// mServerApp: the application of a side changing what it offers while the link is up - data of
// its read-only functions (the writable ones belong to the other side's writes, see M2), an
// extra entity that comes and goes, its use cases.
//
//go:norace
func mServerApp(w *World, l *mLink, s *mSide) {
	w.Go("server-app:"+s.N.Name, func() {
		n := 2 + w.T.Choose(8, "server-ops")
		for i := 0; i < n; i++ {
			if l.awaitStable() == 0 {
				return
			}
			switch w.T.Choose(6, "server-op") {
			case 0, 1, 2: // local update of a read-only list function
				var cand []struct {
					f  *LFeat
					fn model.FunctionType
				}
				for _, sf := range s.Servers {
					for _, pf := range sf.Funcs {
						if info, ok := fnByName[pf.Fn]; ok && info.IsList && !pf.W {
							cand = append(cand, struct {
								f  *LFeat
								fn model.FunctionType
							}{sf, pf.Fn})
						}
					}
				}
				if len(cand) == 0 {
					continue
				}
				c := cand[w.T.Choose(len(cand), "update-target")]
				info := fnByName[c.fn]
				if w.T.Bool(1, 2, "full-update") {
					data := GenList(info, genItems(w, info, 1+w.T.Choose(4, "n"), 3, 4, nil))
					w.Logf("%s SetData %s", s.N.Name, c.fn)
					c.f.F.SetData(c.fn, data)
				} else {
					data := GenList(info, genItems(w, info, 1+w.T.Choose(3, "n"), 1, 2, nil))
					w.Logf("%s UpdateData partial %s", s.N.Name, c.fn)
					_ = c.f.F.UpdateData(c.fn, data, MakeFilter(info, "partial", nil, nil), nil)
				}
				w.Probe("mirror-local-update")
			case 3, 4: // the extra entity comes or goes; not while the link changes (a change
				// between the discovery reply and the node management subscription of a new
				// connection is told to nobody - a gap of the protocol, not of the stack)
				simrt.WaitUntil("tree-change-allowed", func() bool { return l.Dead || l.stable() })
				if l.Dead {
					return
				}
				l.treeBusy++
				if !s.extraIn {
					s.Extra = s.N.NewLocalEntity([]uint{2}, model.EntityTypeTypeEVSE, 0)
					t := serverPalette[w.T.Choose(len(serverPalette), "extra-type")].Type
					s.Extra.AddFeature(t, model.RoleTypeServer, paletteFor(t)...)
					if w.T.Bool(1, 2, "extra-client") {
						s.Extra.AddFeature(model.FeatureTypeTypeLoadControl, model.RoleTypeClient)
					}
					w.Logf("%s AddEntity [2]", s.N.Name)
					s.N.AddEntity(s.Extra)
					s.extraIn = true
				} else {
					w.Logf("%s RemoveEntity [2]", s.N.Name)
					s.N.RemoveEntity(s.Extra)
					s.extraIn = false
				}
				l.treeBusy--
				w.Probe("mirror-tree-change")
			default:
				mUseCaseOp(w, s, i)
				w.Probe("mirror-use-case-change")
			}
			for k := w.T.Choose(4, "server-pause"); k > 0; k-- {
				w.Yield("server-pause")
			}
		}
	})
}

//go:norace
func (s *mSide) newReq(w *World, l *mLink, kind string, fn model.FunctionType, cli *LFeat, ctr *model.MsgCounterType) *mReq {
	if ctr == nil {
		return nil
	}
	r := &mReq{side: s, gen: l.Gen, kind: kind, fn: fn, ctr: uint64(*ctr)}
	r.sent = w.Logf("%s request %s %s ctr=%d", s.N.Name, kind, fn, r.ctr)
	s.reqs = append(s.reqs, r)
	err := cli.F.AddResponseCallback(*ctr, func(msg api.ResponseMessage) {
		c := mCall{ref: uint64(msg.MsgCounterReference), errNo: -1}
		if rd, ok := msg.Data.(*model.ResultDataType); ok && rd != nil && rd.ErrorNumber != nil {
			c.errNo = int(*rd.ErrorNumber)
		}
		c.seq = w.Logf("%s callback for %s ctr=%d ref=%d err=%d", s.N.Name, kind, r.ctr, c.ref, c.errNo)
		r.calls = append(r.calls, c)
	})
	if err != nil {
		w.Logf("%s AddResponseCallback refused for ctr=%d: %v", s.N.Name, r.ctr, err)
		r.refused = true
	}
	r.reg = w.Stamp()
	return r
}

// mClientApp: the application of a side using the other side's servers through its local
// client features: subscribe, bind, read, then reads and writes.
//
//go:norace
func mClientApp(w *World, l *mLink, s *mSide) {
	w.Go("client-app:"+s.N.Name, func() {
		sessions := 0
		for sessions < 2 {
			gen := l.awaitStable()
			if gen == 0 {
				return
			}
			sessions++
			if mClientSession(w, l, s, gen) {
				return
			}
		}
	})
}

// mClientSession returns true when it ran to its end with the link up.
//
//go:norace
func mClientSession(w *World, l *mLink, s *mSide, gen int) bool {
	o := s.Other
	rd := s.N.Dev.RemoteDeviceForSki(s.In.Ski)
	if rd == nil {
		if l.alive(gen) {
			w.Violate(l.focus+"/mirror/remote-device-missing", "%s has no remote device for %s although the link is up", s.N.Name, s.In.Ski)
		}
		return false
	}
	var subs []*mSub
	for i, sf := range o.Servers {
		if !l.alive(gen) {
			return false
		}
		cli := s.Clients[i]
		rf := rd.FeatureByAddress(sf.Address())
		if rf == nil {
			if l.alive(gen) {
				w.Violate(l.focus+"/mirror/remote-feature-missing", "%s does not know feature %s of %s after discovery", s.N.Name, AddrStr(sf.Address()), o.N.Name)
			}
			return false
		}
		sub := &mSub{gen: gen, cli: cli, srv: sf, reads: map[model.FunctionType]*mReq{}}
		// (subscription and binding calls travel between the node management features: that is
		// where their result arrives)
		nm := s.N.Ents[0].Feats[0]
		s.subs = append(s.subs, sub)
		sub.callFrom = w.Stamp()
		ctr, _ := cli.F.SubscribeToRemote(rf.Address())
		sub.req = s.newReq(w, l, "subscribe", "", nm, ctr)
		writable := false
		for _, pf := range sf.Funcs {
			writable = writable || pf.W
		}
		if writable && w.T.Bool(3, 4, "bind") {
			ctr, _ := cli.F.BindToRemote(rf.Address())
			sub.bind = s.newReq(w, l, "bind", "", nm, ctr)
		}
		sub.callTo = w.Stamp()
		for _, pf := range sf.Funcs {
			if pf.R {
				ctr, _ := cli.F.RequestRemoteData(pf.Fn, nil, nil, rf)
				sub.reads[pf.Fn] = s.newReq(w, l, "read", pf.Fn, cli, ctr)
			}
		}
		subs = append(subs, sub)
	}
	n := w.T.Choose(8, "client-ops")
	for i := 0; i < n && len(subs) > 0; i++ {
		if !l.alive(gen) {
			return false
		}
		sub := subs[w.T.Choose(len(subs), "client-sub")]
		rf := rd.FeatureByAddress(sub.srv.Address())
		if rf == nil {
			continue
		}
		pf := sub.srv.Funcs[w.T.Choose(len(sub.srv.Funcs), "client-fn")]
		info, ok := fnByName[pf.Fn]
		if pf.W && ok && info.IsList && w.T.Bool(2, 3, "write") {
			// a partial write naming stored (mostly) items by their identifiers
			yes := true
			data := GenList(info, genItems(w, info, 1+w.T.Choose(2, "n"), 1, 2, func() *bool { return &yes }))
			cmd := model.CmdType{}
			SetCmdData(&cmd, pf.Fn, data)
			cmd.Function = &pf.Fn
			cmd.Filter = []model.FilterType{*MakeFilter(info, "partial", nil, nil)}
			ctr, err := rd.Sender().Write(sub.cli.F.Address(), rf.Address(), cmd)
			if err == nil {
				sub.writes = append(sub.writes, s.newReq(w, l, "write", pf.Fn, sub.cli, ctr))
				w.Probe("mirror-write")
			}
		} else if pf.R {
			// (an identical read that is still unanswered is not sent again: same counter, and a
			// second registration for it is refused - nothing to record then)
			ctr, _ := sub.cli.F.RequestRemoteData(pf.Fn, nil, nil, rf)
			if ctr != nil && !s.hasReq(uint64(*ctr), gen) {
				sub.reads[pf.Fn] = s.newReq(w, l, "read", pf.Fn, sub.cli, ctr)
			}
		}
		for k := w.T.Choose(4, "client-pause"); k > 0; k-- {
			w.Yield("client-pause")
		}
	}
	return l.alive(gen)
}

// resultOf: the result datagram the side received for request r on its current connection.
//
//go:norace
func (s *mSide) resultOf(r *mReq) (bool, int) {
	if r == nil {
		return false, -1
	}
	for _, d := range s.In.Del {
		if d.Done && d.D != nil && d.gen == s.In.Gen && d.D.Header.MsgCounterReference != nil && uint64(*d.D.Header.MsgCounterReference) == r.ctr &&
			len(d.D.Payload.Cmd) > 0 && d.D.Payload.Cmd[0].ResultData != nil && d.D.Payload.Cmd[0].ResultData.ErrorNumber != nil {
			return true, int(*d.D.Payload.Cmd[0].ResultData.ErrorNumber)
		}
	}
	return false, -1
}

//go:norace
func (r *mReq) describe() string {
	if r == nil {
		return "<not sent>"
	}
	out := fmt.Sprintf("%s ctr=%d gen=%d:", r.kind, r.ctr, r.gen)
	for _, c := range r.calls {
		out += fmt.Sprintf(" [ref=%d err=%d]", c.ref, c.errNo)
	}
	return out
}

//go:norace
func (s *mSide) hasReq(ctr uint64, gen int) bool {
	for _, r := range s.reqs {
		if r.ctr == ctr && r.gen == gen {
			return true
		}
	}
	return false
}

// mTeardownCheck (M4): both sides have removed their connection.
//
//go:norace
func mTeardownCheck(w *World, l *mLink) {
	if l.focus != "C10" {
		return
	}
	l.tornDown = true
	w.Probe("mirror-teardown-observed")
	for _, s := range l.S {
		o := s.Other
		if rd := s.N.Dev.RemoteDeviceForSki(s.In.Ski); rd != nil {
			w.Violate("C10/mirror/remote-device-survives-removal", "%s still has a remote device for %s after its connection was removed", s.N.Name, s.In.Ski)
		}
		left := 0
		var what []string
		for _, e := range s.N.Ents {
			for _, f := range e.Feats {
				for _, b := range s.N.Dev.SubscriptionManager().SubscriptionsOnFeature(*f.Address()) {
					left++
					what = append(what, "subscription "+AddrStr(b.ClientFeature.Address())+" on "+AddrStr(f.Address()))
				}
				for _, b := range s.N.Dev.BindingManager().BindingsOnFeature(*f.Address()) {
					left++
					what = append(what, "binding "+AddrStr(b.ClientFeature.Address())+" on "+AddrStr(f.Address()))
				}
			}
		}
		if left > 0 {
			w.Violate("C10/mirror/registry-entry-survives-removal", "%s keeps %d registry entries of the removed %s: %s", s.N.Name, left, o.N.Name, strings.Join(what, "; "))
		}
		for i, cli := range s.Clients {
			ra := o.Servers[i].Address()
			// a subscribe / bind call of the application that overlapped the removal may leave its
			// bookkeeping entry behind (the call found the device, the removal cleaned up, the call
			// recorded its entry): undecided, as for requests in flight (DESIGN 10.4)
			overlapped := false
			for _, sub := range s.subs {
				if !sub.checked && (sub.callTo == 0 || (sub.callTo >= s.In.RemoveBeganAt && sub.callFrom <= s.In.RemovedAt)) {
					sub.overlapped = true
				}
				sub.checked = true
				// (an entry left behind that way stays: a later removal of a connection whose device
				// address is not known yet cannot find it)
				if sub.cli == cli && sub.overlapped {
					overlapped = true
				}
			}
			if overlapped {
				w.Probe("mirror-client-call-overlapped-removal")
				continue
			}
			if cli.F.HasSubscriptionToRemote(ra) {
				w.Violate("C10/mirror/client-side-subscription-survives-removal", "%s client %s still reports a subscription to %s", s.N.Name, AddrStr(cli.Address()), AddrStr(ra))
			}
			if cli.F.HasBindingToRemote(ra) {
				w.Violate("C10/mirror/client-side-binding-survives-removal", "%s client %s still reports a binding to %s", s.N.Name, AddrStr(cli.Address()), AddrStr(ra))
			}
		}
	}
}

//go:norace
func mirrorCheck(w *World) {
	l := w.scData.(*mLink)
	up := l.Up && l.stable()
	if up {
		w.Probe("mirror-link-up-at-end")
	}
	if l.drops > 0 && up {
		w.Probe("mirror-link-restored")
	}
	switch l.focus {
	case "C06":
		if !up {
			return
		}
		for _, s := range l.S {
			o := s.Other
			rd := s.N.Dev.RemoteDeviceForSki(s.In.Ski)
			got, want := TreeOfRemoteView(rd), TreeOfLocalModel(o.N)
			if got != want {
				w.Violate("C06/mirror/remote-view-differs-from-announced-tree", "%s's view of %s:\n%s\nwhat %s's application built:\n%s", s.N.Name, o.N.Name, got, o.N.Name, want)
				return
			}
			w.Probe("mirror-tree-compared")
			if rd == nil {
				continue
			}
			var ucWant any
			if d, ok := o.N.Dev.NodeManagement().DataCopy(model.FunctionTypeNodeManagementUseCaseData).(*model.NodeManagementUseCaseDataType); ok && d != nil {
				ucWant = d.UseCaseInformation
			}
			ucGot := rd.UseCases()
			if mCanonUC(ucGot) != mCanonUC(ucWant) {
				w.Violate("C06/mirror/remote-use-cases-differ", "%s's view of %s's use cases:\n%s\n%s's own use case data:\n%s", s.N.Name, o.N.Name, mCanonUC(ucGot), o.N.Name, mCanonUC(ucWant))
				return
			}
			if o.ucOps > 0 {
				w.Probe("mirror-use-cases-compared")
			}
		}
	case "C08":
		for _, s := range l.S {
			for _, sub := range s.subs {
				if sub.gen != l.Gen || !up {
					continue
				}
				if found, errNo := s.resultOf(sub.req); !found || errNo != 0 {
					w.Violate("C08/mirror/valid-subscription-not-confirmed", "%s's subscription of %s to %s (%s): result received=%v error=%d", s.N.Name, AddrStr(sub.cli.Address()), AddrStr(sub.srv.Address()), sub.req.describe(), found, errNo)
					return
				}
				rd := s.N.Dev.RemoteDeviceForSki(s.In.Ski)
				if rd == nil {
					continue
				}
				rf := rd.FeatureByAddress(sub.srv.Address())
				if rf == nil {
					continue
				}
				for _, pf := range sub.srv.Funcs {
					info, ok := fnByName[pf.Fn]
					if !ok || !info.IsList || !pf.R || sub.reads[pf.Fn] == nil {
						continue
					}
					got := absOf(info, rf.DataCopy(pf.Fn)).canon()
					want := absOf(info, sub.srv.F.DataCopy(pf.Fn)).canon()
					if got != want {
						w.Violate("C08/mirror/subscriber-data-differs-from-server-data", "%s of %s: the subscribed client on %s holds\n%s\nthe server holds\n%s", pf.Fn, AddrStr(sub.srv.Address()), s.N.Name, got, want)
						return
					}
					w.Probe("mirror-data-compared")
				}
			}
		}
	case "C14":
		for _, s := range l.S {
			for _, r := range s.reqs {
				for _, c := range r.calls {
					if c.ref != r.ctr {
						w.Violate("C14/mirror/callback-for-other-reference", "%s: the callback registered for %s ctr=%d got reference %d", s.N.Name, r.kind, r.ctr, c.ref)
						return
					}
				}
				if len(r.calls) > 1 {
					w.Violate("C14/mirror/callback-fired-twice", "%s: the callback of %s %s ctr=%d was invoked %d times", s.N.Name, r.kind, r.fn, r.ctr, len(r.calls))
					return
				}
				// the answer was handled after the registration had returned
				late := false
				for _, d := range s.In.Del {
					if d.Done && !d.Dup && d.D != nil && d.D.Header.MsgCounterReference != nil && uint64(*d.D.Header.MsgCounterReference) == r.ctr &&
						d.gen == s.In.Gen && d.Begin > r.reg {
						late = true
					}
				}
				if !late && !r.refused {
					w.Probe("mirror-answer-overtook-registration")
				}
				if r.gen == l.Gen && up && late && !r.refused {
					if len(r.calls) != 1 {
						w.Violate("C14/mirror/callback-not-fired", "%s: the callback of %s %s ctr=%d (link gen %d, still up) was invoked %d times", s.N.Name, r.kind, r.fn, r.ctr, r.gen, len(r.calls))
						return
					}
					w.Probe("mirror-callback-fired-once")
				}
			}
		}
	case "C01":
		for _, s := range l.S {
			c := s.In
			seen := map[string]bool{}
			for _, o := range c.Out {
				if o.D == nil || o.D.Header.MsgCounter == nil {
					continue
				}
				k := fmt.Sprintf("%d/%d", o.Gen, uint64(*o.D.Header.MsgCounter))
				if seen[k] {
					w.Violate("C01/mirror/counter-used-twice", "%s wrote two datagrams with counter %s (generation/counter)", s.N.Name, k)
					return
				}
				seen[k] = true
			}
			if !up {
				continue
			}
			for _, d := range c.Del {
				if d.gen != c.Gen || !d.Done || d.D == nil || d.D.Header.MsgCounter == nil || d.D.Header.CmdClassifier == nil {
					continue
				}
				ctr := uint64(*d.D.Header.MsgCounter)
				cl := *d.D.Header.CmdClassifier
				n := 0
				for _, o := range c.Out {
					if o.Gen == c.Gen && o.D != nil && o.D.Header.MsgCounterReference != nil && uint64(*o.D.Header.MsgCounterReference) == ctr {
						n++
					}
				}
				ack := d.D.Header.AckRequest != nil && *d.D.Header.AckRequest
				want := -1
				switch {
				case cl == model.CmdClassifierTypeResult:
					want = 0
				case cl == model.CmdClassifierTypeRead || ack:
					want = 1
				}
				if (want >= 0 && n != want) || n > 1 {
					w.Violate("C01/mirror/responses/"+string(cl), "%s answered the %s ctr=%d of %s (%s) with %d datagrams", s.N.Name, cl, ctr, s.Other.N.Name, DescribeDatagram(d.D, d.Raw), n)
					return
				}
				w.Probe("mirror-responses-counted")
			}
		}
	}
}

//go:norace
func mCanonUC(v any) string {
	rv := reflect.ValueOf(v)
	if v == nil || (rv.Kind() == reflect.Slice && rv.Len() == 0) {
		return "[]"
	}
	return CanonAny(v)
}

func init() {
	Register(&Scenario{Prop: "C06", Name: "mirror-tree", NonTrivial: []string{"mirror-tree-compared"}, Build: mirrorBuild("C06"), Check: mirrorCheck})
	Register(&Scenario{Prop: "C08", Name: "mirror-replication", NonTrivial: []string{"mirror-data-compared"}, Build: mirrorBuild("C08"), Check: mirrorCheck})
	Register(&Scenario{Prop: "C10", Name: "mirror-teardown", NonTrivial: []string{"mirror-teardown-observed"}, Build: mirrorBuild("C10"), Check: mirrorCheck})
	Register(&Scenario{Prop: "C14", Name: "mirror-callbacks", NonTrivial: []string{"mirror-callback-fired-once"}, Build: mirrorBuild("C14"), Check: mirrorCheck})
	Register(&Scenario{Prop: "C01", Name: "mirror-responses", NonTrivial: []string{"mirror-responses-counted"}, Build: mirrorBuild("C01"), Check: mirrorCheck})
}
