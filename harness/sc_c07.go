package harness

import (
	"fmt"
	"time"

	"github.com/enbility/spine-go/api"
	"github.com/enbility/spine-go/model"
)

// C07 (API part) — asking repeatedly, from any goroutines, for the feature of one type and
// role yields one and the same feature; feature numbers are never duplicated.

type goafCall struct {
	typ  model.FeatureTypeType
	role model.RoleType
	f    api.FeatureLocalInterface
	id   uint
	call uint64
	ret  uint64
}

func init() {
	Register(&Scenario{
		Prop: "C07", Name: "get-or-add-feature",
		NonTrivial: []string{"goaf-calls-overlapped"},
		Build: func(w *World) {
			L := w.NewNode("L", "d:_i:L", model.NetworkManagementFeatureSetTypeSmart)
			le := L.NewLocalEntity([]uint{1}, model.EntityTypeTypeCEM, 4*time.Second)
			L.AddEntity(le)
			var calls []*goafCall
			types := []model.FeatureTypeType{model.FeatureTypeTypeLoadControl, model.FeatureTypeTypeMeasurement, model.FeatureTypeTypeDeviceConfiguration}
			roles := []model.RoleType{model.RoleTypeClient, model.RoleTypeServer}
			nt := 2 + w.T.Choose(3, "tasks")
			for i := 0; i < nt; i++ {
				i := i
				w.Go(fmt.Sprintf("app%d", i), func() {
					n := 1 + w.T.Choose(3, "calls")
					for j := 0; j < n; j++ {
						c := &goafCall{typ: types[w.T.Choose(2, "type")], role: roles[w.T.Choose(2, "role")]}
						if w.T.Bool(1, 8, "other-type") {
							c.typ = types[2]
						}
						calls = append(calls, c)
						c.call = w.Logf("invoke GetOrAddFeature(%s,%s)", c.typ, c.role)
						if w.T.Bool(1, 6, "use-next-feature-id") {
							// NextFeatureId is public API too: ids it hands out must never collide with features
							id := le.E.NextFeatureId()
							w.Logf("NextFeatureId -> %d", id)
							calls = append(calls, &goafCall{typ: "(next-id)", id: id, call: c.call, ret: w.Seq})
						}
						c.f = le.E.GetOrAddFeature(c.typ, c.role)
						c.id = uint(*c.f.Address().Feature)
						c.ret = w.Logf("return GetOrAddFeature(%s,%s) -> feature %d", c.typ, c.role, c.id)
					}
				})
			}
			w.scData = func() {
				// all calls for one (type, role) returned the same object
				byKey := map[string]*goafCall{}
				ids := map[uint]string{}
				for i, c := range calls {
					if c.typ == "(next-id)" {
						k := fmt.Sprintf("next-id-call-%d", i)
						if o, dup := ids[c.id]; dup {
							w.Violate("C07/feature-number-duplicated", "feature number %d handed out twice (%s and %s)", c.id, o, k)
						}
						ids[c.id] = k
						continue
					}
					if c.f == nil {
						continue
					}
					k := string(c.typ) + "/" + string(c.role)
					if o := byKey[k]; o != nil {
						if o.f != c.f {
							w.Violate("C07/get-or-add-not-idempotent", "GetOrAddFeature(%s) returned two different feature objects: #%d and #%d", k, o.id, c.id)
						}
					} else {
						byKey[k] = c
						if o, dup := ids[c.id]; dup {
							w.Violate("C07/feature-number-duplicated", "feature number %d used for %s and %s", c.id, o, k)
						}
						ids[c.id] = k
					}
				}
				for i, a := range calls {
					for _, b := range calls[i+1:] {
						if a.typ == b.typ && a.role == b.role && a.call < b.ret && b.call < a.ret && a.typ != "(next-id)" {
							w.Probe("goaf-calls-overlapped")
						}
					}
				}
				// the entity lists one feature per (type, role), each address resolves back
				seen := map[string]bool{}
				seenID := map[uint]bool{}
				for _, f := range le.E.Features() {
					k := string(f.Type()) + "/" + string(f.Role())
					if seen[k] {
						w.Violate("C07/duplicate-feature-in-entity", "entity lists two features of %s", k)
					}
					seen[k] = true
					id := uint(*f.Address().Feature)
					if seenID[id] {
						w.Violate("C07/feature-number-duplicated", "entity lists two features with number %d", id)
					}
					seenID[id] = true
					if back := L.Dev.FeatureByAddress(f.Address()); back != f {
						w.Violate("C07/address-does-not-resolve", "feature %s does not resolve back to itself", AddrStr(f.Address()))
					}
				}
				w.State(fmt.Sprint(len(le.E.Features()), len(calls)))
			}
		},
		Check: func(w *World) { w.scData.(func())() },
	})
}
