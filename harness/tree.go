package harness

import (
	"fmt"
	"sort"
	"strings"

	"github.com/enbility/spine-go/api"
	"github.com/enbility/spine-go/model"
)

// Canonical renderings of device trees from four sources, for comparison:
// the harness's record of a local tree, a scripted peer's model, detailed-discovery data on
// the wire, and the remote view the API reports.

type treeFeat struct {
	ent  string
	id   uint
	typ  string
	role string
	desc string
	ops  []string
}

type treeEnt struct {
	addr string
	typ  string
	desc string
}

type treeCanon struct {
	ents  []treeEnt
	feats []treeFeat
}

//go:norace
func (t *treeCanon) String() string {
	sort.Slice(t.ents, func(i, j int) bool { return t.ents[i].addr < t.ents[j].addr })
	sort.Slice(t.feats, func(i, j int) bool {
		if t.feats[i].ent != t.feats[j].ent {
			return t.feats[i].ent < t.feats[j].ent
		}
		return t.feats[i].id < t.feats[j].id
	})
	var l []string
	for _, e := range t.ents {
		l = append(l, fmt.Sprintf("entity %s type=%s desc=%q", e.addr, e.typ, e.desc))
	}
	for _, f := range t.feats {
		sort.Strings(f.ops)
		l = append(l, fmt.Sprintf("feature %s/%d type=%s role=%s desc=%q ops=%s", f.ent, f.id, f.typ, f.role, f.desc, strings.Join(f.ops, ",")))
	}
	return strings.Join(l, "\n")
}

// treeShowPartial: render the "partial" marks of announced operations (scenarios whose peers
// announce them; a local feature derives them from its function data, which the harness's record
// of the local tree does not model). Reset at the start of every run.
var treeShowPartial bool

func opStr(fn model.FunctionType, r, w bool, partial ...bool) string {
	if !treeShowPartial {
		partial = nil
	}
	s := string(fn) + ":"
	if r {
		s += "R"
		if len(partial) > 0 && partial[0] {
			s += "p"
		}
	}
	if w {
		s += "W"
		if len(partial) > 1 && partial[1] {
			s += "p"
		}
	}
	return s
}

// TreeOfLocalModel: the harness's own record of node n's local tree.
//
//go:norace
func TreeOfLocalModel(n *Node) string {
	t := &treeCanon{}
	for _, e := range n.Ents {
		t.ents = append(t.ents, treeEnt{addr: fmtUints(e.Addr), typ: string(e.Type)})
		for _, f := range e.Feats {
			tf := treeFeat{ent: fmtUints(e.Addr), id: f.ID, typ: string(f.Type), role: string(f.Role), desc: f.Desc}
			for _, fn := range f.Funcs {
				tf.ops = append(tf.ops, opStr(fn.Fn, fn.R, fn.W))
			}
			t.feats = append(t.feats, tf)
		}
	}
	return t.String()
}

// TreeOfPeerModel: what a scripted peer has announced.
//
//go:norace
func TreeOfPeerModel(p *Peer) string {
	t := &treeCanon{}
	for _, e := range p.Ents {
		t.ents = append(t.ents, treeEnt{addr: fmtUints(e.Addr), typ: string(e.Type), desc: e.Desc})
		for _, f := range e.Feats {
			tf := treeFeat{ent: fmtUints(e.Addr), id: f.ID, typ: string(f.Type), role: string(f.Role), desc: f.Desc}
			for _, fn := range f.Funcs {
				tf.ops = append(tf.ops, opStr(fn.Fn, fn.R, fn.W, fn.R && f.Partial[fn.Fn][0], fn.W && f.Partial[fn.Fn][1]))
			}
			t.feats = append(t.feats, tf)
		}
	}
	return t.String()
}

func entAddrStr(a []model.AddressEntityType) string {
	var u []uint
	for _, x := range a {
		u = append(u, uint(x))
	}
	return fmtUints(u)
}

// TreeOfDiscoveryData: detailed-discovery data as sent on the wire.
//
//go:norace
func TreeOfDiscoveryData(dd *model.NodeManagementDetailedDiscoveryDataType) string {
	t := &treeCanon{}
	if dd == nil {
		return ""
	}
	for _, ei := range dd.EntityInformation {
		if ei.Description == nil || ei.Description.EntityAddress == nil {
			continue
		}
		e := treeEnt{addr: entAddrStr(ei.Description.EntityAddress.Entity)}
		if ei.Description.EntityType != nil {
			e.typ = string(*ei.Description.EntityType)
		}
		if ei.Description.Description != nil {
			e.desc = string(*ei.Description.Description)
		}
		t.ents = append(t.ents, e)
	}
	for _, fi := range dd.FeatureInformation {
		d := fi.Description
		if d == nil || d.FeatureAddress == nil || d.FeatureAddress.Feature == nil {
			continue
		}
		tf := treeFeat{ent: entAddrStr(d.FeatureAddress.Entity), id: uint(*d.FeatureAddress.Feature)}
		if d.FeatureType != nil {
			tf.typ = string(*d.FeatureType)
		}
		if d.Role != nil {
			tf.role = string(*d.Role)
		}
		if d.Description != nil {
			tf.desc = string(*d.Description)
		}
		for _, sf := range d.SupportedFunction {
			if sf.Function == nil {
				continue
			}
			r := sf.PossibleOperations != nil && sf.PossibleOperations.Read != nil
			w := sf.PossibleOperations != nil && sf.PossibleOperations.Write != nil
			tf.ops = append(tf.ops, opStr(*sf.Function, r, w, r && sf.PossibleOperations.Read.Partial != nil, w && sf.PossibleOperations.Write.Partial != nil))
		}
		t.feats = append(t.feats, tf)
	}
	return t.String()
}

// TreeOfRemoteView: what the API reports for a remote device.
//
//go:norace
func TreeOfRemoteView(rd api.DeviceRemoteInterface) string {
	t := &treeCanon{}
	if rd == nil {
		return "<no device>"
	}
	for _, e := range rd.Entities() {
		te := treeEnt{addr: entAddrStr(e.Address().Entity), typ: string(e.EntityType())}
		if e.Description() != nil {
			te.desc = string(*e.Description())
		}
		t.ents = append(t.ents, te)
		for _, f := range e.Features() {
			tf := treeFeat{ent: te.addr, typ: string(f.Type()), role: string(f.Role())}
			if f.Address() != nil && f.Address().Feature != nil {
				tf.id = uint(*f.Address().Feature)
			}
			if f.Description() != nil {
				tf.desc = string(*f.Description())
			}
			for fn, op := range f.Operations() {
				tf.ops = append(tf.ops, opStr(fn, op.Read(), op.Write(), op.ReadPartial(), op.WritePartial()))
			}
			// every listed feature resolves through the device by its address
			if back := rd.FeatureByAddress(f.Address()); back != f {
				tf.desc += " <does-not-resolve-by-address>"
			}
			t.feats = append(t.feats, tf)
		}
	}
	return t.String()
}
