package harness

import (
	"fmt"
	"strings"
	"time"

	"github.com/enbility/spine-go/model"

	"verifsim/simrt"
)

// Proto is the PROTO scenario family: one real node L and several scripted peers with
// overlapping entity/feature numbering and distinct device addresses.
type Proto struct {
	W       *World
	L       *Node
	Peers   []*Peer
	Servers []*LFeat // server features of L outside entity 0
	Clients []*LFeat
	Ents    []*LEnt
}

type ProtoOpt struct {
	Peers        int
	MinServers   int
	ClientFeats  bool
	SecondEntity bool // force a second local entity with the same feature types
	ServerTypes  []model.FeatureTypeType
	NoConnect    bool
}

// standard feature ids on a scripted peer's entity [1]
const (
	pfLoadControlClient = 1
	pfDevConfigClient   = 2
	pfMeasurementServer = 3
	pfSetpointClient    = 4
	pfDiagClient        = 5
	pfLoadControlServer = 6
)

//go:norace
func stdPeerTree(p *Peer, extraEntity bool) {
	e := p.AddEntity([]uint{1}, model.EntityTypeTypeEVSE, "evse")
	e.AddFeature(pfLoadControlClient, model.FeatureTypeTypeLoadControl, model.RoleTypeClient)
	e.AddFeature(pfDevConfigClient, model.FeatureTypeTypeDeviceConfiguration, model.RoleTypeClient)
	e.AddFeature(pfMeasurementServer, model.FeatureTypeTypeMeasurement, model.RoleTypeServer,
		PFunc{model.FunctionTypeMeasurementListData, true, false}, PFunc{model.FunctionTypeMeasurementDescriptionListData, true, false})
	e.AddFeature(pfSetpointClient, model.FeatureTypeTypeSetpoint, model.RoleTypeClient)
	e.AddFeature(pfDiagClient, model.FeatureTypeTypeDeviceDiagnosis, model.RoleTypeClient)
	e.AddFeature(pfLoadControlServer, model.FeatureTypeTypeLoadControl, model.RoleTypeServer,
		PFunc{model.FunctionTypeLoadControlLimitListData, true, true})
	if extraEntity {
		e2 := p.AddEntity([]uint{1, 1}, model.EntityTypeTypeEV, "ev")
		e2.AddFeature(1, model.FeatureTypeTypeLoadControl, model.RoleTypeClient)
		e2.AddFeature(2, model.FeatureTypeTypeDeviceConfiguration, model.RoleTypeClient)
		e2.AddFeature(3, model.FeatureTypeTypeMeasurement, model.RoleTypeServer, PFunc{model.FunctionTypeMeasurementListData, true, false})
	}
}

//go:norace
func BuildProto(w *World, o ProtoOpt) *Proto {
	pr := &Proto{W: w}
	pr.L = w.NewNode("L", "d:_i:L", model.NetworkManagementFeatureSetTypeSmart)
	types := o.ServerTypes
	if types == nil {
		types = []model.FeatureTypeType{model.FeatureTypeTypeLoadControl, model.FeatureTypeTypeDeviceConfiguration, model.FeatureTypeTypeSetpoint, model.FeatureTypeTypeMeasurement}
	}
	nEnt := 1
	if o.SecondEntity || w.T.Bool(1, 2, "second-local-entity") {
		nEnt = 2
	}
	for i := 0; i < nEnt; i++ {
		le := pr.L.NewLocalEntity([]uint{uint(i + 1)}, model.EntityTypeTypeCEM, 4*time.Second)
		n := 0
		for ti, t := range types {
			if ti >= o.MinServers && i == 0 && !w.T.Bool(3, 4, "server-feature") {
				continue
			}
			if i > 0 && !(o.SecondEntity && ti < o.MinServers) && !w.T.Bool(1, 2, "server-feature-2") {
				continue
			}
			f := le.AddFeature(t, model.RoleTypeServer, paletteFor(t)...)
			pr.Servers = append(pr.Servers, f)
			n++
		}
		if o.ClientFeats {
			for _, t := range []model.FeatureTypeType{model.FeatureTypeTypeMeasurement, model.FeatureTypeTypeLoadControl} {
				pr.Clients = append(pr.Clients, le.AddFeature(t, model.RoleTypeClient))
			}
		}
		pr.L.AddEntity(le)
		pr.Ents = append(pr.Ents, le)
	}
	// device addresses of different peers may be prefix-related ("...Wallbox-1", "...Wallbox-12"):
	// in half of the runs the last peer's address is the first one's with a digit appended
	// (seed C10-h: bookkeeping cleaned by string prefix)
	prefixRelated := o.Peers >= 2 && w.T.Bool(1, 2, "prefix-related-device-addresses")
	for i := 0; i < o.Peers; i++ {
		addr := fmt.Sprintf("d:_i:P%d", i+1)
		if prefixRelated && i == o.Peers-1 {
			addr = "d:_i:P12"
			w.Probe("peers-with-prefix-related-device-addresses")
		}
		p := w.NewPeer(fmt.Sprintf("P%d", i+1), addr, pr.L)
		stdPeerTree(p, w.T.Bool(1, 2, "peer-extra-entity"))
		pr.Peers = append(pr.Peers, p)
		if !o.NoConnect {
			p.Connect()
		}
	}
	return pr
}

// AnswerHeldDiscovery sends the discovery reply a peer with AutoDD off has held back so far.
//
//go:norace
func (p *Peer) AnswerHeldDiscovery() {
	for i := len(p.Conn.Out) - 1; i >= 0; i-- {
		s := p.Conn.Out[i]
		if s.Gen == p.Conn.Gen && Classifier(s) == "read" && s.D != nil && len(s.D.Payload.Cmd) > 0 && s.D.Payload.Cmd[0].NodeManagementDetailedDiscoveryData != nil {
			p.SendDiscoveryReply(s.D.Header.MsgCounter, s.D.Header.AddressSource)
			return
		}
	}
}

// AwaitDiscovery parks the calling task until the node has handled the peer's discovery reply.
//
//go:norace
func (p *Peer) AwaitDiscovery() {
	c := p.Conn
	gen := c.Gen
	simrt.WaitUntil("dd:"+p.Name, func() bool {
		if c.Gen != gen {
			return true
		}
		for _, d := range c.Del {
			if d.Done && strings.HasSuffix(d.Tag, ":dd-reply") && d.gen == gen {
				return true
			}
		}
		return c.Closed
	})
}

// Handled reports whether the node has finished handling the peer's datagram with counter ctr.
//
//go:norace
func (p *Peer) Handled(ctr uint64) bool {
	for _, d := range p.Conn.Del {
		if d.Done && d.D != nil && d.D.Header.MsgCounter != nil && uint64(*d.D.Header.MsgCounter) == ctr && !d.Dup {
			return true
		}
	}
	return false
}

// Await parks until ctr has been handled (or dropped / the connection closed).
//
//go:norace
func (p *Peer) Await(ctr uint64) {
	c := p.Conn
	simrt.WaitUntil(fmt.Sprintf("await:%s#%d", p.Name, ctr), func() bool {
		if c.Closed || p.Handled(ctr) {
			return true
		}
		// dropped: neither queued nor in handling
		for _, q := range c.Queue {
			if strings.HasPrefix(q.tag, fmt.Sprintf("%s#%d:", p.Name, ctr)) {
				return false
			}
		}
		return !c.Handling
	})
}

// DeliveriesOf returns the deliveries of counter ctr in order.
//
//go:norace
func (p *Peer) DeliveriesOf(ctr uint64) []*Delivery {
	var r []*Delivery
	for _, d := range p.Conn.Del {
		if d.D != nil && d.D.Header.MsgCounter != nil && uint64(*d.D.Header.MsgCounter) == ctr {
			r = append(r, d)
		}
	}
	return r
}

// RespDuring returns the responses referencing the delivered request that were written while
// it was being handled.
//
//go:norace
func (p *Peer) RespDuring(d *Delivery) []*Sent {
	var r []*Sent
	if d.D == nil || d.D.Header.MsgCounter == nil {
		return nil
	}
	ctr := uint64(*d.D.Header.MsgCounter)
	for _, s := range p.Conn.Out {
		if s.Seq > d.Begin && (d.End == 0 || s.Seq < d.End) && s.D != nil && s.D.Header.MsgCounterReference != nil &&
			uint64(*s.D.Header.MsgCounterReference) == ctr {
			r = append(r, s)
		}
	}
	return r
}
