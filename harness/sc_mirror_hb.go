package harness

import (
	"time"

	"github.com/enbility/spine-go/model"

	"verifsim/simrt"
)

// C16, variant "mirror-heartbeat" (MIRROR family, DESIGN 10.1): the heartbeat of node L's entity
// is consumed by a real subscriber - node R's DeviceDiagnosis client, subscribed through
// SubscribeToRemote - over a link that may be dropped and set up again. What R receives (the
// notifications its read pump handles, and what its remote-feature cache holds afterwards) is
// the observable:
//   - heartbeat counters arrive strictly increasing;
//   - while the heartbeat runs and R's subscription stands, R gets a refresh at least once per
//     announced timeout (checked in runs where no goroutine was stalled while the clock moved);
//   - R's cache of the heartbeat function holds the last counter it was sent;
//   - once a link is gone, at most the one tick that was in flight still writes to it;
//   - after the link is back and R has subscribed again, refreshes arrive again.

type mhbRecv struct {
	seq     uint64
	at      time.Duration
	counter uint64
	gen     int
	timeout string
}

type mhbData struct {
	l       *mLink
	tau     time.Duration
	recv    []mhbRecv
	subAt   map[int]time.Duration // link generation -> when R's subscription was confirmed
	dropAt  map[int]time.Duration // link generation -> when its drop began
	endAt   time.Duration
	started bool
}

func init() {
	Register(&Scenario{
		Prop: "C16", Name: "mirror-heartbeat", NonTrivial: []string{"mirror-heartbeat-received"},
		Build: func(w *World) {
			l := &mLink{W: w, focus: "C16"}
			d := &mhbData{l: l, subAt: map[int]time.Duration{}, dropAt: map[int]time.Duration{}}
			w.scData = d
			taus := []time.Duration{500 * time.Millisecond, time.Second, 4 * time.Second, 10 * time.Second}
			d.tau = taus[w.T.Choose(len(taus), "timeout")]
			names := []string{"L", "R"}
			for i := 0; i < 2; i++ {
				l.S[i] = &mSide{N: w.NewNode(names[i], "d:_i:"+names[i], model.NetworkManagementFeatureSetTypeSmart)}
			}
			L, R := l.S[0], l.S[1]
			L.Other, R.Other = R, L
			// (a subscription request in flight while its own connection is removed may leave its
			// entry behind - undecided, DESIGN 10.4 - and such an entry is served with heartbeats for
			// ever: connections are removed when none of their own messages is being handled)
			L.N.QuiesceOwnTraffic, R.N.QuiesceOwnTraffic = true, true
			L.Ent = L.N.NewLocalEntity([]uint{1}, model.EntityTypeTypeCEM, d.tau)
			diag := L.Ent.AddFeature(model.FeatureTypeTypeDeviceDiagnosis, model.RoleTypeServer,
				PFunc{model.FunctionTypeDeviceDiagnosisStateData, true, false}, PFunc{model.FunctionTypeDeviceDiagnosisHeartbeatData, true, false})
			L.Servers = []*LFeat{diag}
			L.N.AddEntity(L.Ent)
			R.Ent = R.N.NewLocalEntity([]uint{1}, model.EntityTypeTypeCEM, 0)
			cli := R.Ent.AddFeature(model.FeatureTypeTypeDeviceDiagnosis, model.RoleTypeClient)
			R.Clients = []*LFeat{cli}
			R.N.AddEntity(R.Ent)
			l.connect()
			// what R's read pump handles
			hook := func() {
				R.In.AfterDeliver = func(del *Delivery) {
					if del.D == nil || len(del.D.Payload.Cmd) == 0 || del.D.Header.CmdClassifier == nil || *del.D.Header.CmdClassifier != model.CmdClassifierTypeNotify {
						return
					}
					hb := del.D.Payload.Cmd[0].DeviceDiagnosisHeartbeatData
					if hb == nil {
						return
					}
					r := mhbRecv{seq: del.End, at: w.Now(), gen: l.Gen}
					if hb.HeartbeatCounter != nil {
						r.counter = *hb.HeartbeatCounter
					}
					if hb.HeartbeatTimeout != nil {
						r.timeout = string(*hb.HeartbeatTimeout)
					}
					d.recv = append(d.recv, r)
					w.Probe("mirror-heartbeat-received")
				}
			}
			hook()
			// L's application starts the heartbeat and lets time pass
			w.Go("server-app:L", func() {
				if !w.T.Bool(1, 3, "start-after-link") {
					_ = L.Ent.E.HeartbeatManager().StartHeartbeat()
					d.started = true
				}
				if l.awaitStable() == 0 {
					return
				}
				if !d.started {
					_ = L.Ent.E.HeartbeatManager().StartHeartbeat()
					d.started = true
				}
				for k := 3 + w.T.Choose(6, "periods"); k > 0; k-- {
					w.Sleep(d.tau * time.Duration(1+w.T.Choose(3, "quarters")) / 2)
				}
				d.endAt = w.Now()
			})
			// R's application subscribes whenever the link is (again) up
			w.Go("client-app:R", func() {
				for sessions := 0; sessions < 3; sessions++ {
					gen := l.awaitStable()
					if gen == 0 || d.endAt != 0 {
						return
					}
					rd := R.N.Dev.RemoteDeviceForSki(R.In.Ski)
					if rd == nil {
						return
					}
					rf := rd.FeatureByAddress(diag.Address())
					if rf == nil {
						if l.alive(gen) {
							w.Violate("C16/mirror/remote-feature-missing", "R does not know L's DeviceDiagnosis server after discovery")
						}
						return
					}
					ctr, _ := cli.F.SubscribeToRemote(rf.Address())
					if ctr == nil {
						return
					}
					req := &mReq{side: R, gen: gen, kind: "subscribe", ctr: uint64(*ctr)}
					simrt.WaitUntil("subscription-answered", func() bool {
						f, _ := R.resultOf(req)
						return f || !l.alive(gen)
					})
					if f, e := R.resultOf(req); f && e == 0 && l.alive(gen) {
						d.subAt[gen] = w.Now()
						w.Logf("R subscribed to the heartbeat (link gen %d)", gen)
					}
					// stay until this link generation is over
					simrt.WaitUntil("link-generation-over", func() bool { return !l.alive(gen) || d.endAt != 0 })
					if d.endAt != 0 {
						return
					}
					hookAgain := func() bool { return l.Dead || l.stable() }
					simrt.WaitUntil("link-back", hookAgain)
					if l.Dead {
						return
					}
					hook()
				}
			})
			if w.T.Bool(1, 2, "link-fault") {
				// (the drop times are recorded by watching the link state)
				w.StepCheck = func() {
					if l.dropping && d.dropAt[l.Gen] == 0 {
						d.dropAt[l.Gen] = w.Now() + 1
					}
				}
				mLinkFault(w, l)
			}
		},
		Check: func(w *World) {
			d := w.scData.(*mhbData)
			l := d.l
			L, R := l.S[0], l.S[1]
			stalled := w.Probes["clock-advanced-while-tasks-enabled"] > 0
			// counters strictly increasing in arrival order
			for i := 1; i < len(d.recv); i++ {
				if d.recv[i].counter <= d.recv[i-1].counter {
					w.Violate("C16/mirror/heartbeat-counter-not-increasing", "R received counter %d at +%v after %d at +%v", d.recv[i].counter, d.recv[i].at, d.recv[i-1].counter, d.recv[i-1].at)
					return
				}
			}
			// the period, as the real subscriber sees it
			bound := d.tau
			for _, r := range d.recv {
				if a, ok := parseXSDuration(r.timeout); ok && a < bound {
					bound = a
				}
			}
			for gen := 1; gen <= l.Gen; gen++ {
				from, subscribed := d.subAt[gen]
				if !subscribed {
					continue
				}
				to := d.endAt
				if at, ok := d.dropAt[gen]; ok && (to == 0 || at < to) {
					to = at
				}
				if to == 0 || stalled || !d.started || to-from <= bound {
					continue
				}
				prev := from
				n := 0
				for _, r := range d.recv {
					if r.gen != gen || r.at < from || r.at > to {
						continue
					}
					if r.at-prev > bound+time.Millisecond {
						w.Violate("C16/mirror/heartbeat-gap-exceeds-timeout", "timeout %v: R (subscribed since +%v, link gen %d) received nothing between +%v and +%v", bound, from, gen, prev, r.at)
						return
					}
					prev = r.at
					n++
				}
				if to-prev > bound+time.Millisecond {
					w.Violate("C16/mirror/heartbeat-gap-exceeds-timeout", "timeout %v: R (subscribed since +%v, link gen %d) received nothing between +%v and +%v (%d refreshes before)", bound, from, gen, prev, to, n)
					return
				}
				w.Probe("mirror-heartbeat-span-checked")
				if gen > 1 {
					w.Probe("mirror-heartbeat-resumed-after-reconnect")
				}
			}
			// R's cache holds what it was sent last
			if l.Up && l.stable() && len(d.recv) > 0 && d.recv[len(d.recv)-1].gen == l.Gen {
				if rd := R.N.Dev.RemoteDeviceForSki(R.In.Ski); rd != nil {
					if rf := rd.FeatureByAddress(L.Servers[0].Address()); rf != nil {
						if hb, ok := rf.DataCopy(model.FunctionTypeDeviceDiagnosisHeartbeatData).(*model.DeviceDiagnosisHeartbeatDataType); ok && hb != nil && hb.HeartbeatCounter != nil {
							if last := d.recv[len(d.recv)-1].counter; *hb.HeartbeatCounter != last {
								w.Violate("C16/mirror/subscriber-cache-differs", "R's cache holds heartbeat counter %d, the last notification carried %d", *hb.HeartbeatCounter, last)
							}
							w.Probe("mirror-heartbeat-cache-compared")
						}
					}
				}
			}
			// nothing but a tick in flight writes to a link that is gone
			stale := 0
			for _, s := range L.In.Out {
				if s.Stale && s.D != nil && len(s.D.Payload.Cmd) > 0 && s.D.Payload.Cmd[0].DeviceDiagnosisHeartbeatData != nil {
					stale++
				}
			}
			if stale > l.drops {
				w.Violate("C16/mirror/heartbeat-written-to-removed-connection", "L wrote %d heartbeat notifications to connections it had removed (%d removals)", stale, l.drops)
			}
		},
	})
}
