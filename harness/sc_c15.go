package harness

import (
	"fmt"
	"strings"

	"github.com/enbility/spine-go/api"
	"github.com/enbility/spine-go/model"
	"github.com/enbility/spine-go/spine"

	"verifsim/simrt"
)

// C15 — the event bus delivers every state change once, core first, without deadlock.

type c15Op struct {
	kind   string // sub | unsub | pub
	h      *c15Handler
	marker string
	invoke uint64
	ret    uint64
	core   bool // publish that the core handler reacts to
	task   string
}

type c15Delivery struct {
	seq    uint64
	marker string
}

type c15Handler struct {
	id   int
	d    *c15Data
	got  []c15Delivery
	core bool // registered at the core level: runs synchronously inside Publish, takes no actions
	// selfUnsub: a core level handler that unsubscribes itself while handling its n-th event (what
	// the stack's own handler does, indirectly, when its last remote device goes)
	selfUnsub int
	unsubRet  uint64
}

type c15Data struct {
	w        *World
	pr       *Proto
	handlers []*c15Handler
	ops      []*c15Op
	nested   int
	coreH    *c15Handler
	coreH2   *c15Handler
}

//go:norace
func (d *c15Data) op(kind string, h *c15Handler, marker string) *c15Op {
	o := &c15Op{kind: kind, h: h, marker: marker}
	if t := simrt.Self(); t != nil {
		o.task = t.String()
	}
	d.ops = append(d.ops, o)
	return o
}

//go:norace
func (d *c15Data) subscribe(h *c15Handler) {
	o := d.op("sub", h, "")
	o.invoke = d.w.Logf("invoke Subscribe h%d", h.id)
	_ = spine.Events.Subscribe(h)
	o.ret = d.w.Logf("return Subscribe h%d", h.id)
}

//go:norace
func (d *c15Data) unsubscribe(h *c15Handler) {
	o := d.op("unsub", h, "")
	o.invoke = d.w.Logf("invoke Unsubscribe h%d", h.id)
	_ = spine.Events.Unsubscribe(h)
	o.ret = d.w.Logf("return Unsubscribe h%d", h.id)
}

//go:norace
func (d *c15Data) publish(core bool) {
	w := d.w
	marker := fmt.Sprintf("evt-%d", w.Uniq())
	o := d.op("pub", nil, marker)
	payload := api.EventPayload{EventType: api.EventTypeDataChange, ChangeType: api.ElementChangeUpdate, Function: model.FunctionType(marker)}
	if core {
		// an event the stack's own (core level) handler reacts to: it subscribes to the peer's
		// node management and requests its use case data, synchronously, before Publish returns
		for _, p := range d.pr.Peers {
			rd := d.pr.L.Dev.RemoteDeviceForSki(p.Conn.Ski)
			if rd == nil || rd.Address() == nil {
				continue
			}
			nm := rd.FeatureByAddress(FAddr(p.Addr, []uint{0}, 0))
			if nm == nil {
				continue
			}
			payload = api.EventPayload{Ski: p.Conn.Ski, EventType: api.EventTypeDeviceChange, ChangeType: api.ElementChangeAdd, Device: rd, Feature: nm,
				Data: &model.NodeManagementDetailedDiscoveryDataType{}, Function: model.FunctionType(marker)}
			o.core = true
			break
		}
	}
	o.invoke = w.Logf("invoke Publish %s core=%v", marker, o.core)
	if t := simrt.Self(); t != nil {
		t.OpSeq = o.invoke
	}
	spine.Events.Publish(payload)
	o.ret = w.Logf("return Publish %s", marker)
}

//go:norace
func (h *c15Handler) HandleEvent(p api.EventPayload) {
	d := h.d
	w := d.w
	marker := string(p.Function)
	if !strings.HasPrefix(marker, "evt-") {
		return // events of the stack itself (discovery etc.)
	}
	seq := w.Logf("h%d handles %s", h.id, marker)
	h.got = append(h.got, c15Delivery{seq, marker})
	if h.core {
		if h.selfUnsub > 0 && len(h.got) == h.selfUnsub && h.unsubRet == 0 {
			w.Logf("invoke unsubscribe (core level) h%d inside its handler", h.id)
			spine.VerifUnsubscribeCore(h)
			h.unsubRet = w.Logf("return unsubscribe (core level) h%d", h.id)
			w.Probe("c15-core-handler-unsubscribed-inside-handler")
		}
		return
	}
	// handlers may use the bus and the stack while handling an event
	switch w.T.Choose(8, "handler-action") {
	case 1:
		d.subscribe(d.handlers[w.T.Choose(len(d.handlers), "sub-other")])
		w.Probe("c15-subscribe-inside-handler")
	case 2:
		d.unsubscribe(h)
		w.Probe("c15-unsubscribe-inside-handler")
	case 3:
		if d.nested < 4 {
			d.nested++
			d.publish(false)
			w.Probe("c15-publish-inside-handler")
		}
	case 4:
		_ = d.pr.L.Dev.Entities()
		_ = d.pr.Servers[0].F.DataCopy(d.pr.Servers[0].Funcs[0].Fn)
		_ = d.pr.L.Dev.RemoteDevices()
		w.Probe("c15-stack-call-inside-handler")
	}
}

func init() {
	Register(&Scenario{
		Prop: "C15", Name: "event-bus", DeadlockDirected: true,
		NonTrivial: []string{"c15-delivery-checked"},
		Build: func(w *World) {
			d := &c15Data{w: w}
			w.scData = d
			nh := 2 + w.T.Choose(3, "handlers")
			for i := 0; i < nh; i++ {
				d.handlers = append(d.handlers, &c15Handler{id: i, d: d})
			}
			// applications usually subscribe before the first peer connects, i.e. before the
			// stack's own handler exists: "core first" must not depend on who subscribed first
			if w.T.Bool(1, 2, "application-subscribes-before-the-stack") {
				d.subscribe(d.handlers[0])
				w.Probe("c15-application-subscribed-before-core")
			}
			pr := BuildProto(w, ProtoOpt{Peers: 1, MinServers: 1})
			d.pr = pr
			// a harness handler at the core level, next to the real DeviceLocal
			coreH := &c15Handler{id: 100, d: d, core: true}
			spine.VerifSubscribeCore(coreH)
			d.coreH = coreH
			if w.T.Bool(1, 2, "second-core-handler") {
				d.coreH2 = &c15Handler{id: 101, d: d, core: true, selfUnsub: 1 + w.T.Choose(3, "self-unsub-at")}
				spine.VerifSubscribeCore(d.coreH2)
			}
			// the only peer goes (and maybe comes back) while events are published: the stack's own
			// handler is unsubscribed with its last remote device and subscribed again with the next
			if w.T.Bool(1, 2, "peer-leaves") {
				w.EnableFaults("conn.drop")
				w.Go("peer-leaves", func() {
					p := pr.Peers[0]
					p.AwaitDiscovery()
					for k := w.T.Choose(30, "leave-delay"); k > 0; k-- {
						w.Yield("leave-delay")
					}
					if !w.FaultsOn {
						return
					}
					w.Logf("fault conn.drop P1")
					if pr.L.Disconnect(p.Name) {
						w.Fault("conn.drop")
						w.Probe("c15-last-peer-removed")
					}
					if w.T.Bool(1, 2, "peer-returns") {
						for k := w.T.Choose(10, "return-delay"); k > 0; k-- {
							w.Yield("return-delay")
						}
						w.Fault("conn.restart")
						p.Connect()
					}
				})
			}
			nt := 2 + w.T.Choose(3, "tasks")
			for i := 0; i < nt; i++ {
				w.Go(fmt.Sprintf("app%d", i), func() {
					if w.T.Bool(1, 2, "wait-for-peer") {
						pr.Peers[0].AwaitDiscovery()
					}
					n := 3 + w.T.Choose(8, "nops")
					for j := 0; j < n; j++ {
						h := d.handlers[w.T.Choose(len(d.handlers), "handler")]
						switch k := w.T.Choose(10, "bus-op"); {
						case k < 3:
							d.subscribe(h)
						case k < 5:
							d.unsubscribe(h)
						case k < 9:
							d.publish(false)
						default:
							d.publish(true)
						}
					}
				})
			}
		},
		Check: func(w *World) {
			d := w.scData.(*c15Data)
			for _, p := range d.ops {
				if p.kind != "pub" || p.ret == 0 {
					continue
				}
				// the core level handler has handled the event exactly once when Publish returns, and
				// before any application handler sees it
				var coreAt []uint64
				for _, g := range d.coreH.got {
					if g.marker == p.marker {
						coreAt = append(coreAt, g.seq)
					}
				}
				if len(coreAt) != 1 {
					w.Violate("C15/core-handler-delivery-count", "the core level handler received %s %d times", p.marker, len(coreAt))
				} else if coreAt[0] > p.ret || coreAt[0] < p.invoke {
					w.Violate("C15/core-handler-not-finished-when-publish-returns", "the core level handler handled %s at %d, Publish ran [%d,%d]", p.marker, coreAt[0], p.invoke, p.ret)
				}
				for _, h := range d.handlers {
					for _, g := range h.got {
						if g.marker == p.marker && len(coreAt) == 1 && g.seq < coreAt[0] {
							w.Violate("C15/application-handler-before-core-handler", "application handler h%d handled %s at %d, the core level handler at %d", h.id, p.marker, g.seq, coreAt[0])
						}
					}
				}
				for _, h := range d.handlers {
					// subscription state of h around the publication
					var last *c15Op
					open := false // an operation on h that may take effect before the handler list is read
					for _, o := range d.ops {
						if o.h != h || o.kind == "pub" {
							continue
						}
						if o.ret != 0 && o.ret < p.invoke {
							if last == nil || o.ret > last.ret {
								last = o
							}
						} else if o.invoke < p.ret {
							open = true
						}
					}
					// two completed operations of different kind that overlapped each other leave the state open
					if last != nil {
						for _, o := range d.ops {
							if o.h == h && o.kind != "pub" && o.kind != last.kind && o != last && o.ret != 0 && o.invoke < last.ret && last.invoke < o.ret {
								open = true
							}
						}
					}
					n := 0
					var at []uint64
					for _, g := range h.got {
						if g.marker == p.marker {
							n++
							at = append(at, g.seq)
						}
					}
					subscribed := last != nil && last.kind == "sub"
					switch {
					case n > 1:
						w.Violate("C15/event-delivered-twice", "handler h%d received %s %d times", h.id, p.marker, n)
					case !open && subscribed && n != 1:
						w.Violate("C15/event-not-delivered", "handler h%d was subscribed when %s was published but received it %d times", h.id, p.marker, n)
					case !open && !subscribed && n != 0:
						w.Violate("C15/event-delivered-after-unsubscribe", "handler h%d received %s although it was not subscribed (last completed operation: %v)", h.id, p.marker, lastKind(last))
					}
					if !open {
						w.Probe("c15-delivery-checked")
						if subscribed {
							w.Probe("c15-delivered-to-subscribed")
						}
					} else {
						w.Probe("c15-subscription-change-overlapped-publish")
					}
					// core first: what the core handler wrote precedes every application delivery and
					// the return of Publish
					if p.core {
						var coreMax uint64
						for _, peer := range d.pr.Peers {
							for _, s := range peer.Conn.Out {
								if s.OpSeq == p.invoke && s.Task == p.task {
									if s.Seq > coreMax {
										coreMax = s.Seq
									}
								}
							}
						}
						if coreMax != 0 {
							w.Probe("c15-core-effect-observed")
							if coreMax > p.ret {
								w.Violate("C15/core-handler-not-finished-when-publish-returns", "the core handler wrote at %d, Publish(%s) had returned at %d", coreMax, p.marker, p.ret)
							}
							for _, a := range at {
								if a < coreMax {
									w.Violate("C15/application-handler-before-core-handler", "application handler h%d handled %s at %d, the core handler was still writing at %d", h.id, p.marker, a, coreMax)
								}
							}
						}
					}
				}
			}
			// a handler receives nothing that is published after its unsubscription returned
			if h2 := d.coreH2; h2 != nil && h2.unsubRet != 0 {
				for _, g := range h2.got {
					for _, p := range d.ops {
						if p.kind == "pub" && p.marker == g.marker && p.invoke > h2.unsubRet {
							w.Violate("C15/event-delivered-after-unsubscribe", "core level handler h%d received %s (published at %d) although its unsubscription had returned at %d", h2.id, g.marker, p.invoke, h2.unsubRet)
						}
					}
				}
			}
			w.State(fmt.Sprint(len(d.ops)))
		},
	})
}

func lastKind(o *c15Op) string {
	if o == nil {
		return "none"
	}
	return o.kind
}
