package harness

import (
	"fmt"
	"reflect"
	"strings"
	"time"

	"github.com/enbility/spine-go/model"
	"github.com/enbility/spine-go/util"
)

// C01 — every inbound request gets exactly the one correctly addressed response
// (DESIGN Appendix A.3).

type c01Req struct {
	peer    *Peer
	ctr     uint64
	cl      model.CmdClassifierType
	fn      model.FunctionType
	src     *model.FeatureAddressType
	dst     *model.FeatureAddressType
	wantSrc string
	dstOK   bool
	ack     *bool
	desc    string
	expect  string // "reply" | "ok-if-ack" | "error" | "none" | "skip"
	canon   string // expected reply payload (canonical) or ""
}

var featureTypesWithFunctions []model.FeatureTypeType

func init() {
	for _, ft := range allFeatureTypes {
		if ft == model.FeatureTypeTypeNodeManagement || len(fnTable[ft]) == 0 {
			continue
		}
		featureTypesWithFunctions = append(featureTypesWithFunctions, ft)
	}
}

type c01Data struct {
	L      *Node
	peers  []*Peer
	reqs   []*c01Req
	static map[string]string // local feature address + function -> canonical data set in the prefix
	bound  map[string]bool   // peer|client|server -> bound
	subs   map[string]bool   // per-peer sequential subscription registry
	// the function of servers[0] that holds a write-protected element ("" if none)
	protFn   model.FunctionType
	protInfo FnInfo
}

//go:norace
func ackDesc(a *bool) string {
	if a == nil {
		return "absent"
	}
	return fmt.Sprint(*a)
}

func init() {
	Register(&Scenario{
		Prop: "C01", Name: "classifier-table", Weight: 3,
		NonTrivial: []string{"c01-request-checked"},
		Build: func(w *World) {
			d := &c01Data{static: map[string]string{}, bound: map[string]bool{}, subs: map[string]bool{}}
			L := w.NewNode("L", "d:_i:L", model.NetworkManagementFeatureSetTypeSmart)
			d.L = L
			// local tree: entity [1] with 2-3 server features of random types and matching clients
			nT := 2 + w.T.Choose(2, "ntypes")
			var types []model.FeatureTypeType
			pool := append([]model.FeatureTypeType(nil), featureTypesWithFunctions...)
			for len(types) < nT && len(pool) > 0 {
				i := w.T.Choose(len(pool), "type")
				types = append(types, pool[i])
				pool = append(pool[:i:i], pool[i+1:]...)
			}
			// sometimes the first server holds a write-protected element: an authorised write that
			// addresses it is rejected by the data layer (one error result, whatever ackRequest says)
			var protInfo FnInfo
			if w.T.Bool(1, 3, "protected-fixture") {
				protInfo = fnByName[c04Functions[w.T.Choose(len(c04Functions), "protected-function")]]
				pt := featureTypeOf(protInfo.Fn)
				for i, t := range types {
					if t == pt && i != 0 {
						types[i] = types[0]
					}
				}
				types[0] = pt
			}
			le := L.NewLocalEntity([]uint{1}, model.EntityTypeTypeCEM, 4*time.Second)
			var servers, clients []*LFeat
			for ti, t := range types {
				var fns []PFunc
				if ti == 0 && protInfo.Fn != "" {
					fns = append(fns, PFunc{protInfo.Fn, true, true})
				}
				for _, fi := range fnTable[t] {
					if t == model.FeatureTypeTypeDeviceDiagnosis && fi.Fn == model.FunctionTypeDeviceDiagnosisHeartbeatData {
						continue // would start the heartbeat; C16 owns that
					}
					if ti == 0 && fi.Fn == protInfo.Fn {
						continue
					}
					if w.T.Bool(3, 4, "announce-fn") {
						fns = append(fns, PFunc{fi.Fn, true, w.T.Bool(1, 2, "writable")})
					}
				}
				if len(fns) > 8 {
					fns = fns[:8]
				}
				servers = append(servers, le.AddFeature(t, model.RoleTypeServer, fns...))
				clients = append(clients, le.AddFeature(t, model.RoleTypeClient))
			}
			L.AddEntity(le)
			// static data on the announced functions
			if protInfo.Fn != "" {
				items := []reflect.Value{w.GenItem(protInfo.ItemType, []uint{0}, 1, 1, util.Ptr(false)), w.GenItem(protInfo.ItemType, []uint{1}, 1, 1, util.Ptr(true))}
				data := GenList(protInfo, items)
				servers[0].F.SetData(protInfo.Fn, data)
				d.static[AddrStr(servers[0].Address())+"|"+string(protInfo.Fn)] = CanonAny(data)
				d.protFn, d.protInfo = protInfo.Fn, protInfo
			}
			for _, sf := range servers {
				for _, fn := range sf.Funcs {
					if sf == servers[0] && fn.Fn == protInfo.Fn {
						continue
					}
					if w.T.Bool(2, 3, "set-data") {
						info := fnByNameGeneric(fn.Fn)
						data := w.GenData(info)
						sf.F.SetData(fn.Fn, data)
						d.static[AddrStr(sf.Address())+"|"+string(fn.Fn)] = CanonAny(data)
					}
				}
			}
			np := 2 + w.T.Choose(2, "peers")
			for i := 0; i < np; i++ {
				p := w.NewPeer(fmt.Sprintf("P%d", i+1), fmt.Sprintf("d:_i:P%d", i+1), L)
				e := p.AddEntity([]uint{1}, model.EntityTypeTypeEVSE, "evse")
				for ti, t := range types {
					e.AddFeature(uint(2*ti+1), t, model.RoleTypeClient)
					var fns []PFunc
					for _, fi := range fnTable[t] {
						fns = append(fns, PFunc{fi.Fn, true, false})
					}
					e.AddFeature(uint(2*ti+2), t, model.RoleTypeServer, fns...)
					// an entity may carry several features of one type and role
					if w.T.Bool(1, 3, "twin-features") {
						e.AddFeature(uint(100+2*ti+1), t, model.RoleTypeClient)
						e.AddFeature(uint(100+2*ti+2), t, model.RoleTypeServer, fns...)
					}
				}
				d.peers = append(d.peers, p)
				p.Connect()
			}
			w.EnableFaults("net.dup")
			for _, p := range d.peers {
				p := p
				w.Go("script:"+p.Name, func() {
					p.AwaitDiscovery()
					ents := p.Ents[1]
					// prefix: bind some clients (sequentially, outcome observed)
					for ti, sf := range servers {
						if w.T.Bool(1, 2, "prefix-bind") {
							cf := ents.Feature(uint(2*ti + 1))
							ctr := p.SendBind(cf, sf.Address(), sf.Type, false, "prefix-bind")
							p.Await(ctr)
							for _, s := range p.Responses(ctr) {
								if isRes, e := IsResult(s); isRes && e == 0 {
									d.bound[p.Name+"|"+AddrStr(cf.Address())+"|"+AddrStr(sf.Address())] = true
								}
							}
						}
					}
					n := 4 + w.T.Choose(12, "nreq")
					for i := 0; i < n; i++ {
						r := d.genRequest(w, p, servers, clients)
						if r == nil {
							continue
						}
						d.reqs = append(d.reqs, r)
						if w.T.Bool(1, 3, "await") {
							p.Await(r.ctr)
						}
					}
				})
			}
			w.scData = d
		},
		Check: func(w *World) {
			d := w.scData.(*c01Data)
			d.check(w)
		},
	})
}

// fnByNameGeneric finds the function info also for functions that exist under several types.
//
//go:norace
func fnByNameGeneric(fn model.FunctionType) FnInfo {
	if i, ok := fnByName[fn]; ok {
		return i
	}
	for _, i := range fnTable[model.FeatureTypeTypeGeneric] {
		if i.Fn == fn {
			return i
		}
	}
	return FnInfo{}
}

//go:norace
func (d *c01Data) genRequest(w *World, p *Peer, servers, clients []*LFeat) *c01Req {
	ents := p.Ents[1]
	ti := w.T.Choose(len(servers), "target-type")
	sf, cfL := servers[ti], clients[ti]
	pClient, pServer := ents.Feature(uint(2*ti+1)), ents.Feature(uint(2*ti+2))
	if tc, ts := ents.Feature(uint(100+2*ti+1)), ents.Feature(uint(100+2*ti+2)); tc != nil && ts != nil && w.T.Bool(1, 2, "request-from-twin-feature") {
		// the second feature of the same type and role is the sender
		pClient, pServer = tc, ts
		w.Probe("c01-request-from-second-feature-of-same-type-and-role")
	}
	r := &c01Req{peer: p, dstOK: true}
	switch w.T.Choose(3, "ack") {
	case 1:
		r.ack = util.Ptr(false)
	case 2:
		r.ack = util.Ptr(true)
	}
	acceptExpect := "ok-if-ack"
	fns := fnTable[sf.Type]
	fi := fns[w.T.Choose(len(fns), "function")]
	if sf.Type == model.FeatureTypeTypeDeviceDiagnosis && fi.Fn == model.FunctionTypeDeviceDiagnosisHeartbeatData {
		fi = fns[0]
	}
	kind := w.T.Choose(12, "kind")
	if d.protFn != "" && ti == 0 && w.T.Bool(1, 2, "protected-function") {
		fi = d.protInfo
	}
	r.fn = fi.Fn
	cmd := model.CmdType{}
	empty := reflect.New(fi.DataType).Interface()
	switch {
	case kind >= 3 && kind < 7 && ti == 0 && fi.Fn == d.protFn && d.protFn != "":
		// every write to the function holding the protected element addresses that element
		// (partial write, identified by the item's identifier): refused, by the binding check or
		// by the data layer - an error result either way and the data stays as it is
		r.cl = model.CmdClassifierTypeWrite
		r.src, r.dst = pClient.Address(), sf.Address()
		item := w.GenItem(fi.ItemType, []uint{0}, 1, 1, nil)
		SetCmdData(&cmd, fi.Fn, GenList(fi, []reflect.Value{item}))
		cmd.Function = util.Ptr(fi.Fn)
		cmd.Filter = append(cmd.Filter, *MakeFilter(fi, "partial", nil, nil))
		bound := d.bound[p.Name+"|"+AddrStr(pClient.Address())+"|"+AddrStr(sf.Address())]
		r.expect, r.desc = "error", fmt.Sprintf("write-to-protected-element(bound=%v)", bound)
		w.Probe(fmt.Sprintf("c01-protected-write-bound-%v", bound))
	case kind < 3: // read
		r.cl = model.CmdClassifierTypeRead
		SetCmdData(&cmd, fi.Fn, empty)
		r.src = pClient.Address()
		switch w.T.Choose(4, "read-dst") {
		case 0, 1:
			r.dst, r.expect, r.desc = sf.Address(), "reply", "read-server"
			r.canon = AddrStr(sf.Address()) + "|" + string(fi.Fn) // key; resolved at check time
		case 2:
			r.dst, r.expect, r.desc = cfL.Address(), "error", "read-client-role"
		case 3:
			// foreign function: registered for another type only
			other := servers[(ti+1)%len(servers)]
			if other.Type == model.FeatureTypeTypeGeneric || Registered(other.Type, fi.Fn) {
				return nil
			}
			r.dst, r.expect, r.desc = other.Address(), "error", "read-foreign-function"
		}
	case kind < 5: // notify / reply from the peer's server feature to our client feature
		r.cl = model.CmdClassifierTypeNotify
		r.desc = "notify"
		if w.T.Bool(1, 2, "reply-instead") {
			r.cl = model.CmdClassifierTypeReply
			r.desc = "reply"
		}
		r.src, r.dst = pServer.Address(), cfL.Address()
		if w.T.Bool(1, 4, "to-server-feature") {
			r.dst = sf.Address()
			r.desc += "-to-server-feature"
		}
		SetCmdData(&cmd, fi.Fn, w.GenData(fi))
		r.expect = acceptExpect
		switch w.T.Choose(5, "update-shape") {
		case 0: // partial filter
			cmd.Function = util.Ptr(fi.Fn)
			cmd.Filter = []model.FilterType{*model.NewFilterTypePartial()}
			if fi.IsList {
				r.desc += "-partial-list"
			} else {
				r.expect = "error"
				r.desc += "-partial-on-non-list"
			}
		case 1: // function not registered for the source feature's type
			src := ents.Feature(uint(2*((ti+1)%len(servers)) + 2))
			if src.Type == model.FeatureTypeTypeGeneric || Registered(src.Type, fi.Fn) {
				return nil
			}
			r.src = src.Address()
			r.expect = "error"
			r.desc += "-foreign-function"
		}
	case kind < 7: // write
		r.cl = model.CmdClassifierTypeWrite
		r.src, r.dst = pClient.Address(), sf.Address()
		SetCmdData(&cmd, fi.Fn, w.GenData(fi))
		writable := false
		for _, f := range sf.Funcs {
			if f.Fn == fi.Fn && f.W {
				writable = true
			}
		}
		bound := d.bound[p.Name+"|"+AddrStr(pClient.Address())+"|"+AddrStr(sf.Address())]
		if writable {
			// from now on the function's data is no longer the data of the prefix
			delete(d.static, AddrStr(sf.Address())+"|"+string(fi.Fn))
		}
		if writable && bound {
			r.expect, r.desc = acceptExpect, "write-authorised"
		} else {
			r.expect, r.desc = "error", fmt.Sprintf("write-unauthorised(writable=%v,bound=%v)", writable, bound)
		}
	case kind < 8: // call on an ordinary feature
		r.cl = model.CmdClassifierTypeCall
		r.src, r.dst = pClient.Address(), sf.Address()
		SetCmdData(&cmd, fi.Fn, w.GenData(fi))
		r.expect, r.desc = "error", "call-on-ordinary-feature"
	case kind < 10: // subscription call on node management
		r.cl = model.CmdClassifierTypeCall
		r.src, r.dst = p.NM().Address(), p.LocalNM()
		key := p.Name + "|" + AddrStr(pClient.Address()) + "|" + AddrStr(sf.Address())
		if w.T.Bool(2, 3, "subscribe") {
			ft := sf.Type
			cmd.NodeManagementSubscriptionRequestCall = &model.NodeManagementSubscriptionRequestCallType{SubscriptionRequest: &model.SubscriptionManagementRequestCallType{
				ClientAddress: pClient.Address(), ServerAddress: sf.Address(), ServerFeatureType: &ft}}
			r.desc = "subscribe|" + key
		} else {
			cmd.NodeManagementSubscriptionDeleteCall = &model.NodeManagementSubscriptionDeleteCallType{SubscriptionDelete: &model.SubscriptionManagementDeleteCallType{
				ClientAddress: pClient.Address(), ServerAddress: sf.Address()}}
			r.desc = "unsubscribe|" + key
		}
		r.fn = ""
		r.expect = "registry"
	default: // result
		r.cl = model.CmdClassifierTypeResult
		r.src, r.dst = pClient.Address(), sf.Address()
		cmd = model.CmdType{ResultData: &model.ResultDataType{ErrorNumber: util.Ptr(model.ErrorNumberType(w.T.Choose(3, "errno")))}}
		r.fn = ""
		r.expect, r.desc = "none", "result"
	}
	// destination variants: unknown entity / unknown feature
	switch w.T.Choose(8, "dst-variant") {
	case 0:
		r.dst = FAddr(d.L.Addr, []uint{9}, 1)
		r.dstOK = false
		r.desc += "+unknown-entity"
	case 1:
		r.dst = FAddr(d.L.Addr, []uint{1}, 77)
		r.dstOK = false
		r.desc += "+unknown-feature"
	}
	if !r.dstOK {
		if r.cl == model.CmdClassifierTypeResult {
			r.expect = "none"
		} else {
			r.expect = "error"
		}
	}
	// what a response has to name as its source: the addressed local feature with the local device
	// address - whatever the request said about the device part of its destination (seed C01-f):
	// omitted (legal), or a device address that is not (or no longer) this node's (the stack
	// addresses by entity and feature and serves such a request like any other)
	r.wantSrc = AddrStr(r.dst)
	switch w.T.Choose(8, "dst-device") {
	case 0:
		cp := *r.dst
		cp.Device = nil
		r.dst = &cp
		r.desc += "+dst-device-omitted"
		w.Probe("c01-dst-device-omitted")
	case 1:
		cp := *r.dst
		cp.Device = util.Ptr(model.AddressDeviceType(d.L.Addr + "-0815"))
		r.dst = &cp
		r.desc += "+dst-device-other"
		w.Probe("c01-dst-device-other")
	}
	h := p.Header(r.src, r.dst, r.cl, r.ack)
	if r.cl == model.CmdClassifierTypeResult || (r.cl == model.CmdClassifierTypeReply && w.T.Bool(3, 4, "with-ref")) {
		h.MsgCounterReference = util.Ptr(model.MsgCounterType(1 + w.T.Choose(5, "ref")))
	}
	r.ctr = p.Send(model.DatagramType{Header: h, Payload: model.PayloadType{Cmd: []model.CmdType{cmd}}}, r.desc)
	return r
}

//go:norace
func (d *c01Data) check(w *World) {
	for _, p := range d.peers {
		// this peer's requests in the order in which they were handled
		type hd struct {
			r *c01Req
			d *Delivery
		}
		var handled []hd
		for _, r := range d.reqs {
			if r.peer != p {
				continue
			}
			for _, del := range p.DeliveriesOf(r.ctr) {
				if del.Done {
					handled = append(handled, hd{r, del})
				}
			}
		}
		// sort by delivery begin (one reader per connection: sequential)
		for i := 1; i < len(handled); i++ {
			for j := i; j > 0 && handled[j].d.Begin < handled[j-1].d.Begin; j-- {
				handled[j], handled[j-1] = handled[j-1], handled[j]
			}
		}
		for _, h := range handled {
			r, del := h.r, h.d
			expect := r.expect
			if expect == "registry" {
				parts := strings.SplitN(r.desc, "|", 2)
				key := parts[1]
				if i := strings.Index(key, "+"); i >= 0 {
					key = key[:i]
				}
				if strings.HasPrefix(parts[0], "subscribe") {
					if d.subs[key] {
						expect = "error"
					} else {
						expect = "ok-if-ack"
						d.subs[key] = true
					}
				} else {
					if d.subs[key] {
						expect = "ok-if-ack"
						delete(d.subs, key)
					} else {
						expect = "error"
					}
				}
			}
			wantReply, wantOK, wantErr := 0, 0, 0
			switch expect {
			case "reply":
				wantReply = 1
			case "ok-if-ack":
				if r.ack != nil && *r.ack {
					wantOK = 1
				}
			case "error":
				wantErr = 1
			}
			gotReply, gotOK, gotErr := 0, 0, 0
			shape := strings.SplitN(r.desc, "|", 2)[0]
			if i := strings.Index(r.desc, "+"); i >= 0 && !strings.Contains(shape, "+") {
				shape += r.desc[i:]
			}
			sig := fmt.Sprintf("%s/ack-%s", shape, ackDesc(r.ack))
			for _, q := range d.peers {
				for _, s := range q.Conn.Out {
					if s.OpSeq != del.Pre || s.D == nil {
						continue
					}
					cl := Classifier(s)
					if cl != "reply" && cl != "result" {
						continue
					}
					if q != p {
						w.Violate("C01/response-on-wrong-connection/"+shape, "response to %s#%d (%s) was written to the connection of %s: %s", p.Name, r.ctr, r.desc, q.Name, DescribeDatagram(s.D, s.Raw))
						continue
					}
					hd := s.D.Header
					if hd.MsgCounterReference == nil || uint64(*hd.MsgCounterReference) != r.ctr {
						w.Violate("C01/wrong-reference/"+shape, "response to %s#%d references %v", p.Name, r.ctr, hd.MsgCounterReference)
					}
					if AddrStr(hd.AddressDestination) != AddrStr(r.src) {
						w.Violate("C01/wrong-destination/"+shape, "response to %s#%d (%s) is addressed to %s, want the request source %s", p.Name, r.ctr, r.desc, AddrStr(hd.AddressDestination), AddrStr(r.src))
					}
					wantSrc := r.wantSrc
					if AddrStr(hd.AddressSource) != wantSrc {
						w.Violate("C01/wrong-source/"+shape, "response to %s#%d (%s) names %s as source, want %s", p.Name, r.ctr, r.desc, AddrStr(hd.AddressSource), wantSrc)
					}
					if cl == "reply" {
						gotReply++
						fn, val := cmdFunction(s.D.Payload.Cmd[0])
						if fn != r.fn {
							w.Violate("C01/reply-carries-other-function/"+shape, "reply to read of %s carries %s", r.fn, fn)
						} else if want, ok := d.static[r.canon]; ok && r.canon != "" {
							// (functions written by any peer during the run are no longer in d.static)
							if c := CanonAny(val); c != want {
								w.Violate("C01/reply-payload/"+shape, "reply to read of %s carries %s, want the current data %s", r.fn, c, want)
							}
							w.Probe("c01-reply-payload-checked")
						}
					} else if isRes, e := IsResult(s); isRes {
						if e == 0 {
							gotOK++
						} else {
							gotErr++
						}
					}
				}
			}
			w.Probe("c01-request-checked")
			w.Probe("c01-" + string(r.cl))
			if gotReply != wantReply || gotOK != wantOK || gotErr != wantErr {
				w.Violate("C01/responses/"+sig, "%s#%d %s %s fn=%s ack=%s: got %d reply, %d success result, %d error result; prescribed %d/%d/%d",
					p.Name, r.ctr, r.cl, r.desc, r.fn, ackDesc(r.ack), gotReply, gotOK, gotErr, wantReply, wantOK, wantErr)
			}
		}
	}
	w.State(fmt.Sprint(len(d.reqs)))
}
