package harness

import (
	"fmt"
	"sort"
	"strings"

	"github.com/enbility/spine-go/api"
	"github.com/enbility/spine-go/model"
	"github.com/enbility/spine-go/util"
)

// C06 — the remote device tree converges to what the peer announced (DESIGN A.4).

var c06Addrs = [][]uint{{1}, {2}, {1, 1}, {1, 2}}

type c06Data struct {
	pr       *Proto
	ev       *EventLog
	wantAdd  map[string]int // peer|entity -> expected number of entity-added events
	wantRem  map[string]int
	removed  map[string]bool // peer|entity ever removed after the prefix
	grants   []RegKey        // subscriptions granted in the prefix ("sub") ...
	bgrants  []RegKey        // ... and bindings
	refs     []*clientRef
	mismatch int
}

// genEntity builds a fresh entity for the peer's model.
//
//go:norace
func c06GenEntity(w *World, p *Peer, addr []uint) *PEnt {
	e := &PEnt{Peer: p, Addr: addr, Type: []model.EntityTypeType{model.EntityTypeTypeEVSE, model.EntityTypeTypeEV, model.EntityTypeTypeHeatPumpAppliance}[w.T.Choose(3, "etype")],
		Desc: fmt.Sprintf("entity-desc-%d", w.Uniq())}
	if w.T.Bool(1, 4, "no-desc") {
		e.Desc = ""
	}
	// always: a LoadControl client (1), a Measurement server (2); optionally more
	e.AddFeature(1, model.FeatureTypeTypeLoadControl, model.RoleTypeClient)
	e.AddFeature(2, model.FeatureTypeTypeMeasurement, model.RoleTypeServer, PFunc{Fn: model.FunctionTypeMeasurementListData, R: true, W: w.T.Bool(1, 2, "w")},
		PFunc{Fn: model.FunctionTypeMeasurementDescriptionListData, R: w.T.Bool(1, 2, "r")})
	n := w.T.Choose(3, "extra-feats")
	for i := 0; i < n; i++ {
		pe := serverPalette[w.T.Choose(len(serverPalette), "ftype")]
		role := model.RoleTypeServer
		if w.T.Bool(1, 3, "client") {
			role = model.RoleTypeClient
		}
		var fns []PFunc
		if role == model.RoleTypeServer {
			for _, f := range pe.Funcs {
				if w.T.Bool(2, 3, "fn") {
					fns = append(fns, PFunc{Fn: f.Fn, R: w.T.Bool(3, 4, "r"), W: w.T.Bool(1, 3, "w")})
				}
			}
		}
		f := e.AddFeature(uint(3+i), pe.Type, role, fns...)
		f.Desc = fmt.Sprintf("feat-desc-%d", w.Uniq())
		// every combination of read / write, each plain or partial
		f.Partial = map[model.FunctionType][2]bool{}
		for _, fn := range fns {
			f.Partial[fn.Fn] = [2]bool{w.T.Bool(1, 3, "rp"), w.T.Bool(1, 2, "wp")}
		}
	}
	return e
}

//go:norace
func (p *Peer) setEntity(e *PEnt) {
	for i, x := range p.Ents {
		if eqUints(x.Addr, e.Addr) {
			p.Ents[i] = e
			return
		}
	}
	p.Ents = append(p.Ents, e)
}

// sendDiscoveryNotify sends a detailed-discovery notify listing the given (entity, state) pairs.
//
//go:norace
func (p *Peer) sendDiscoveryNotify(items []c06Item, partial bool, tag string) uint64 {
	dd := p.DiscoveryData([]*PEnt{}, nil, false)
	dd.EntityInformation = nil
	for _, it := range items {
		var st *model.NetworkManagementStateChangeType
		if partial {
			s := model.NetworkManagementStateChangeTypeAdded
			if it.removed {
				s = model.NetworkManagementStateChangeTypeRemoved
			}
			st = &s
		}
		dd.EntityInformation = append(dd.EntityInformation, p.EntityInfo(it.e, st))
		if !it.removed {
			for _, f := range it.e.Feats {
				dd.FeatureInformation = append(dd.FeatureInformation, p.FeatureInfo(f))
			}
		}
	}
	cmd := model.CmdType{NodeManagementDetailedDiscoveryData: dd}
	if partial {
		cmd.Function = util.Ptr(model.FunctionTypeNodeManagementDetailedDiscoveryData)
		cmd.Filter = []model.FilterType{*model.NewFilterTypePartial()}
	}
	return p.SendCmd(p.NM().Address(), p.LocalNM(), model.CmdClassifierTypeNotify, nil, cmd, tag)
}

type c06Item struct {
	e       *PEnt
	removed bool
}

func init() {
	Register(&Scenario{
		Prop: "C06", Name: "announcements", Weight: 3,
		NonTrivial: []string{"c06-tree-compared"},
		Build: func(w *World) {
			pr := BuildProto(w, ProtoOpt{Peers: 1 + w.T.Choose(2, "peers"), MinServers: 1, ClientFeats: true, NoConnect: true,
				ServerTypes: []model.FeatureTypeType{model.FeatureTypeTypeLoadControl, model.FeatureTypeTypeMeasurement}})
			d := &c06Data{pr: pr, ev: w.CollectEvents(), wantAdd: map[string]int{}, wantRem: map[string]int{}, removed: map[string]bool{}}
			w.scData = d
			treeShowPartial = true
			for _, p := range pr.Peers {
				p.ReverseEnts = w.T.Bool(1, 2, "entities-listed-children-first")
			}
			var lcServer *LFeat
			for _, s := range pr.Servers {
				if s.Type == model.FeatureTypeTypeLoadControl {
					lcServer = s
				}
			}
			var measClient *LFeat
			for _, c := range pr.Clients {
				if c.Type == model.FeatureTypeTypeMeasurement {
					measClient = c
				}
			}
			for _, p := range pr.Peers {
				p := p
				// custom initial tree: entity 0 (implicit) + 1-2 entities
				p.Ents = p.Ents[:1]
				for _, a := range c06Addrs[:1+w.T.Choose(2, "initial-entities")] {
					p.setEntity(c06GenEntity(w, p, a))
				}
				if w.T.Bool(1, 3, "initial-sub-entity") {
					// (with ReverseEnts the discovery reply names the sub-entity before its parent)
					p.setEntity(c06GenEntity(w, p, []uint{1, 1}))
					w.Probe("c06-initial-sub-entity")
				}
				for _, e := range p.Ents[1:] {
					d.wantAdd[p.Name+"|"+fmtUints(e.Addr)]++
				}
				p.Connect()
				w.Go("script:"+p.Name, func() {
					p.AwaitDiscovery()
					d.compare(w, p, "discovery-reply")
					// prefix: the entities' LoadControl clients subscribe and bind; a local client subscribes to their measurement servers
					for _, e := range p.Ents[1:] {
						cf := e.Feature(1)
						c := p.SendSubscribe(cf, lcServer.Address(), lcServer.Type, false, "sub")
						p.Await(c)
						if okResult(p, c) {
							d.grants = append(d.grants, RegKey{p.Name, AddrStr(cf.Address()), AddrStr(lcServer.Address())})
						}
						if w.T.Bool(1, 2, "bind") {
							c := p.SendBind(cf, lcServer.Address(), lcServer.Type, false, "bind")
							p.Await(c)
							if okResult(p, c) {
								d.bgrants = append(d.bgrants, RegKey{p.Name, AddrStr(cf.Address()), AddrStr(lcServer.Address())})
							}
						}
						if measClient != nil && w.T.Bool(2, 3, "client-ref") {
							remote := FAddr(p.Addr, e.Addr, 2)
							if _, err := measClient.F.SubscribeToRemote(remote); err == nil {
								d.refs = append(d.refs, &clientRef{kind: "sub", lf: measClient, peer: p, remote: remote})
							}
						}
					}
					n := 2 + w.T.Choose(7, "nann")
					for i := 0; i < n; i++ {
						d.announce(w, p)
					}
				})
			}
		},
		Check: func(w *World) { w.scData.(*c06Data).check(w) },
	})
}

//go:norace
func okResult(p *Peer, ctr uint64) bool {
	for _, s := range p.Responses(ctr) {
		if isRes, e := IsResult(s); isRes && e == 0 {
			return true
		}
	}
	return false
}

// announce mutates the peer's model, sends the matching notification, waits until it has been
// handled and compares the remote view.
//
//go:norace
func (d *c06Data) announce(w *World, p *Peer) {
	present := func(a []uint) bool { return p.Entity(a) != nil }
	hasChild := func(a []uint) bool {
		for _, e := range p.Ents {
			if len(e.Addr) > len(a) && eqUints(e.Addr[:len(a)], a) {
				return true
			}
		}
		return false
	}
	key := func(a []uint) string { return p.Name + "|" + fmtUints(a) }
	var items []c06Item
	partial := true
	tag := ""
	doAdd := func(a []uint) {
		if len(a) > 1 && !present(a[:1]) {
			return // children only below an existing parent
		}
		e := c06GenEntity(w, p, a)
		if !present(a) {
			d.wantAdd[key(a)]++
		} else {
			// an entity that exists keeps its type; description and features are replaced
			e.Type = p.Entity(a).Type
			w.Probe("c06-repeated-add")
		}
		p.setEntity(e)
		items = append(items, c06Item{e: e})
	}
	doRemove := func(a []uint) {
		if hasChild(a) {
			return
		}
		e := p.Entity(a)
		if e != nil {
			d.wantRem[key(a)]++
			d.removed[key(a)] = true
			p.RemoveEntity(a)
		} else {
			e = &PEnt{Peer: p, Addr: a, Type: model.EntityTypeTypeEV}
			w.Probe("c06-remove-unknown-entity")
		}
		items = append(items, c06Item{e: e, removed: true})
	}
	pick := func() []uint { return c06Addrs[w.T.Choose(len(c06Addrs), "addr")] }
	switch k := w.T.Choose(10, "announcement"); {
	case k < 3:
		tag = "partial-add"
		doAdd(pick())
		if w.T.Bool(1, 3, "second") {
			a := pick()
			if len(items) == 0 || !eqUints(items[0].e.Addr, a) {
				doAdd(a)
			}
		}
	case k < 5:
		tag = "partial-remove"
		a := pick()
		if len(a) == 1 && hasChild(a) && w.T.Bool(1, 2, "parent-and-children") {
			// an entity goes away together with its sub-entities, the parent named first
			var kids [][]uint
			for _, e := range p.Ents {
				if len(e.Addr) > 1 && eqUints(e.Addr[:1], a) {
					kids = append(kids, e.Addr)
				}
			}
			pe := p.Entity(a)
			d.wantRem[key(a)]++
			d.removed[key(a)] = true
			items = append(items, c06Item{e: pe, removed: true})
			for _, kaddr := range kids {
				ke := p.Entity(kaddr)
				d.wantRem[key(kaddr)]++
				d.removed[key(kaddr)] = true
				items = append(items, c06Item{e: ke, removed: true})
			}
			for _, kaddr := range kids {
				p.RemoveEntity(kaddr)
			}
			p.RemoveEntity(a)
			tag = "partial-remove-parent-and-children"
			w.Probe("c06-parent-and-children-removed")
		} else {
			doRemove(a)
		}
	case k < 7:
		// several unrelated entities in one notification, additions and removals in any order
		tag = "partial-add-and-remove"
		var used [][]uint
		n := 2 + w.T.Choose(2, "mixed-entries")
		for i := 0; i < n; i++ {
			a := pick()
			related := false
			for _, b := range used {
				if eqUints(a, b) || (len(b) > 1 && eqUints(b[:1], a)) || (len(a) > 1 && eqUints(a[:1], b)) {
					related = true
				}
			}
			if related {
				continue
			}
			used = append(used, a)
			if w.T.Bool(1, 2, "mixed-remove") {
				doRemove(a)
			} else {
				doAdd(a)
			}
		}
		if len(items) > 1 {
			w.Probe("c06-add-and-remove-in-one-notification")
		}
	default:
		// full notification: the complete tree after adding and removing some entities;
		// entities that stay are announced unchanged
		tag = "full"
		partial = false
		nch := 1 + w.T.Choose(2, "full-changes")
		touched := map[string]bool{}
		for i := 0; i < nch; i++ {
			a := pick()
			if touched[fmtUints(a)] {
				continue // one change per entity and notification
			}
			touched[fmtUints(a)] = true
			if present(a) {
				if !hasChild(a) && len(p.Ents) > 2 {
					d.wantRem[key(a)]++
					d.removed[key(a)] = true
					p.RemoveEntity(a)
				}
			} else if len(a) == 1 || present(a[:1]) {
				d.wantAdd[key(a)]++
				p.setEntity(c06GenEntity(w, p, a))
			}
		}
		for _, e := range p.Ents {
			items = append(items, c06Item{e: e})
		}
	}
	if len(items) == 0 {
		return
	}
	ctr := p.sendDiscoveryNotify(items, partial, tag)
	p.Await(ctr)
	d.compare(w, p, tag)
	if w.T.Bool(1, 4, "repeat-announcement") {
		// the same announcement once more changes nothing (and publishes no further event)
		ctr := p.sendDiscoveryNotify(items, partial, tag+"-repeated")
		p.Await(ctr)
		d.compare(w, p, tag+"-repeated")
		w.Probe("c06-repeated-announcement")
		w.Fault("net.dup(in-order repeat)")
	}
}

//go:norace
func (d *c06Data) compare(w *World, p *Peer, after string) {
	// wait until a possibly duplicated copy has been handled too: compare only when the queue is empty
	if len(p.Conn.Queue) > 0 || p.Conn.Handling {
		w.Probe("c06-compare-skipped-busy")
		return
	}
	rd := d.pr.L.Dev.RemoteDeviceForSki(p.Conn.Ski)
	got, want := TreeOfRemoteView(rd), TreeOfPeerModel(p)
	w.Probe("c06-tree-compared")
	if got != want {
		d.mismatch++
		w.Violate("C06/remote-tree-differs-after-"+after, "after %s from %s the API reports\n%s\nthe peer announced\n%s", after, p.Name, got, want)
	}
}

//go:norace
func (d *c06Data) check(w *World) {
	L := d.pr.L
	for _, p := range d.pr.Peers {
		rd := L.Dev.RemoteDeviceForSki(p.Conn.Ski)
		if got, want := TreeOfRemoteView(rd), TreeOfPeerModel(p); got != want && d.mismatch == 0 {
			w.Violate("C06/remote-tree-differs-at-end", "at the end the API reports for %s\n%s\nthe peer announced\n%s", p.Name, got, want)
		}
		// events: exactly one per entity that appeared / disappeared
		gotAdd, gotRem := map[string]int{}, map[string]int{}
		for _, e := range d.ev.Ev {
			if e.P.EventType != api.EventTypeEntityChange || e.P.Ski != p.Conn.Ski || e.P.Entity == nil {
				continue
			}
			k := p.Name + "|" + entAddrStr(e.P.Entity.Address().Entity)
			if e.P.ChangeType == api.ElementChangeAdd {
				gotAdd[k]++
			} else if e.P.ChangeType == api.ElementChangeRemove {
				gotRem[k]++
			}
		}
		for _, a := range c06Addrs {
			k := p.Name + "|" + fmtUints(a)
			if gotAdd[k] != d.wantAdd[k] {
				w.Violate("C06/entity-added-events", "%d entity-added events for %s, the entity appeared %d times", gotAdd[k], k, d.wantAdd[k])
			}
			if gotRem[k] != d.wantRem[k] {
				w.Violate("C06/entity-removed-events", "%d entity-removed events for %s, the entity disappeared %d times", gotRem[k], k, d.wantRem[k])
			}
		}
		// cascade: exactly the registry entries of removed entities are gone
		for _, fam := range []struct {
			name   string
			grants []RegKey
			single bool
		}{{"subscription", d.grants, false}, {"binding", d.bgrants, true}} {
			var want []string
			for _, g := range fam.grants {
				if g.Peer != p.Name {
					continue
				}
				// client address "dev/[e]/f" -> entity
				ent := g.Client[strings.Index(g.Client, "/")+1 : strings.LastIndex(g.Client, "/")]
				if !d.removed[p.Name+"|"+ent] {
					want = append(want, g.String())
				}
			}
			sort.Strings(want)
			var got string
			if fam.single {
				got, _ = bindingListing(L, p)
			} else {
				got, _ = subscriptionListing(L, p)
			}
			if got != strings.Join(want, ";") {
				w.Violate("C06/"+fam.name+"-cascade", "%ss of %s after the announcements: %q, expected (granted and entity never removed): %q", fam.name, p.Name, got, strings.Join(want, ";"))
			}
			w.Probe("c06-cascade-checked")
		}
	}
	for _, r := range d.refs {
		ent := fmtUints(nil)
		_ = ent
		a := AddrStr(r.remote)
		e := a[strings.Index(a, "/")+1 : strings.LastIndex(a, "/")]
		gone := d.removed[r.peer.Name+"|"+e]
		has := r.lf.F.HasSubscriptionToRemote(r.remote)
		if gone && has {
			w.Violate("C06/client-side-reference-leaked", "%s still references %s although that entity was announced as removed", AddrStr(r.lf.Address()), a)
		}
		if !gone && !has {
			w.Violate("C06/client-side-reference-lost", "%s lost its reference to %s although that entity was never removed", AddrStr(r.lf.Address()), a)
		}
	}
	w.State(fmt.Sprint(d.wantAdd, d.wantRem))
}
