package harness

import (
	"fmt"
	"github.com/enbility/spine-go/util"
	"sort"
	"strings"
	"time"

	"github.com/enbility/spine-go/api"
	"github.com/enbility/spine-go/model"
	"github.com/enbility/spine-go/spine"

	"verifsim/simrt"
)

// C10 — teardown of one peer or entity never leaks into another.

// clientRef is one client-side subscription/binding of a local client feature to a feature
// of a scripted peer.
type clientRef struct {
	kind   string // "sub" | "bind"
	lf     *LFeat
	peer   *Peer
	remote *model.FeatureAddressType
	ops    []RegOp // add/remove windows (Peer = peer name, Client = remote address string, Server = local feature)
}

type c10Data struct {
	a         *actor
	ev        *EventLog
	refs      []*clientRef
	approval  []*LFeat
	drops     map[string][]uint64 // peer -> RemovedAt stamps
	lookups   []string
	pn        *Peer // the peer without device address
	pnSrv     *LFeat
	pnPending int
}

//go:norace
func (d *c10Data) refOp(r *clientRef, kind string, call, ret uint64, ok bool) {
	r.ops = append(r.ops, RegOp{Kind: kind, Peer: r.peer.Name, Client: AddrStr(r.remote), Server: AddrStr(r.lf.Address()), OK: ok, Call: call, Return: ret})
}

func init() {
	Register(&Scenario{
		Prop: "C10", Name: "teardown", DeadlockDirected: true, Weight: 3,
		NonTrivial: []string{"teardown-with-state"},
		Build: func(w *World) {
			pr := BuildProto(w, ProtoOpt{Peers: 2 + w.T.Choose(2, "peers"), MinServers: 2, ClientFeats: true,
				ServerTypes: []model.FeatureTypeType{model.FeatureTypeTypeLoadControl, model.FeatureTypeTypeDeviceConfiguration, model.FeatureTypeTypeSetpoint}})
			pr.L.QuiesceOwnTraffic = true
			a := &actor{w: w, pr: pr, binds: &regScript{w: w, pr: pr, kind: "bind"}, subs: &regScript{w: w, pr: pr, kind: "sub"}}
			d := &c10Data{a: a, ev: w.CollectEvents(), drops: map[string][]uint64{}}
			w.FaultRate = map[string]int{"conn.drop": 8, "peer.entity_remove": 8}
			if w.T.Bool(1, 2, "dup") {
				w.FaultRate["net.dup"] = 4
			}
			// some server features ask the application for approval; the application stays silent
			for _, sf := range pr.Servers {
				if w.T.Bool(1, 3, "approval-feature") {
					sf := sf
					_ = sf.F.AddWriteApprovalCallback(func(msg *api.Message) {
						// the application stays silent (the timer decides) or gives its verdict a little
						// later - possibly while the writer's or another peer's connection is removed
						if !w.T.Bool(1, 2, "verdict") {
							w.Logf("approval requested for %s (application stays silent)", AddrStr(sf.F.Address()))
							w.Probe("approval-left-pending")
							w.Fault("app.silent")
							return
						}
						for k := w.T.Choose(6, "think"); k > 0; k-- {
							w.Yield("think")
						}
						e := model.ErrorType{}
						if w.T.Bool(1, 3, "deny") {
							e = *model.NewErrorTypeFromString("no")
						}
						w.Logf("verdict for a write on %s", AddrStr(sf.F.Address()))
						sf.F.ApproveOrDenyWrite(msg, e)
						w.Probe("approval-verdict-given")
					})
					sf.F.SetWriteApprovalTimeout([]time.Duration{time.Second, 5 * time.Second, 30 * time.Second}[w.T.Choose(3, "approval-timeout")])
					d.approval = append(d.approval, sf)
				}
			}
			for _, p := range pr.Peers {
				p := p
				w.Go("script:"+p.Name, func() { a.run(p, 4+w.T.Choose(8, "nops")) })
			}
			// a peer whose discovery reply never arrives (net.drop): the node never learns its device
			// address. It announces its entity by a notification, binds, writes to a feature that
			// asks for approval and loses its connection with the write pending (seed C10-g): its
			// pending approval goes with the connection like everybody else's
			if w.T.Bool(1, 3, "peer-without-device-address") {
				// (it uses a server feature of its own, outside the registry model of the other peers)
				pnEnt := pr.L.NewLocalEntity([]uint{7}, model.EntityTypeTypeCEM, 0)
				pnSrv := pnEnt.AddFeature(model.FeatureTypeTypeLoadControl, model.RoleTypeServer, paletteFor(model.FeatureTypeTypeLoadControl)...)
				pr.L.AddEntity(pnEnt)
				_ = pnSrv.F.AddWriteApprovalCallback(func(msg *api.Message) {
					w.Logf("approval requested for %s (application stays silent)", AddrStr(pnSrv.F.Address()))
					w.Fault("app.silent")
				})
				pnSrv.F.SetWriteApprovalTimeout([]time.Duration{time.Second, 5 * time.Second}[w.T.Choose(2, "pn-approval-timeout")])
				d.pnSrv = pnSrv
				pn := w.NewPeer("PN", "d:_i:PN", pr.L)
				stdPeerTree(pn, false)
				pn.AutoDD = false
				pn.Connect()
				d.pn = pn
				w.Fault("net.drop")
				w.Go("script:PN", func() {
					sf := pnSrv
					added := model.NetworkManagementStateChangeTypeAdded
					cmd := model.CmdType{
						Function:                            util.Ptr(model.FunctionTypeNodeManagementDetailedDiscoveryData),
						Filter:                              []model.FilterType{*model.NewFilterTypePartial()},
						NodeManagementDetailedDiscoveryData: pn.DiscoveryData([]*PEnt{pn.Ents[1]}, &added, true),
					}
					pn.Await(pn.SendCmd(pn.NM().Address(), pn.LocalNM(), model.CmdClassifierTypeNotify, nil, cmd, "entity-announced-without-discovery-reply"))
					cf := a.clientFor(pn, sf)
					c := pn.SendBind(cf, sf.Address(), sf.Type, false, "bind")
					pn.Await(c)
					if !okResult(pn, c) {
						return
					}
					var fn *PFunc
					for i := range sf.Funcs {
						if sf.Funcs[i].W {
							fn = &sf.Funcs[i]
						}
					}
					if fn == nil {
						return
					}
					info := fnByName[fn.Fn]
					wcmd := model.CmdType{}
					SetCmdData(&wcmd, fn.Fn, w.GenSimpleList(info, 1))
					pn.Await(pn.SendCmd(cf.Address(), sf.Address(), model.CmdClassifierTypeWrite, util.Ptr(true), wcmd, "write-pending"))
					for k := w.T.Choose(6, "pn-delay"); k > 0; k-- {
						w.Yield("pn-delay")
					}
					d.pnPending = len(spine.VerifPendingApprovals(sf.F)[pn.Conn.Ski])
					w.Logf("fault conn.drop PN (pending approvals: %d)", d.pnPending)
					if pr.L.Disconnect(pn.Name) {
						w.Fault("conn.drop")
						if d.pnPending > 0 {
							w.Probe("c10-address-less-peer-removed-with-pending-write")
						}
					}
				})
			}
			// local client features subscribe / bind to the peers' server features
			if len(pr.Clients) > 0 {
				w.Go("client-refs", func() {
					n := 1 + w.T.Choose(5, "nrefs")
					for i := 0; i < n; i++ {
						p := pr.Peers[w.T.Choose(len(pr.Peers), "ref-peer")]
						p.AwaitDiscovery()
						if p.Conn.Closed {
							continue
						}
						// measurement client -> the peer's measurement server (entity [1] or [1,1])
						var lf *LFeat
						for _, c := range pr.Clients {
							if c.Type == model.FeatureTypeTypeMeasurement {
								lf = c
							}
						}
						if lf == nil {
							return
						}
						ent := []uint{1}
						if p.Entity([]uint{1, 1}) != nil && w.T.Bool(1, 2, "ref-second-entity") {
							ent = []uint{1, 1}
						}
						remote := FAddr(p.Addr, ent, pfMeasurementServer)
						kind := "sub"
						if w.T.Bool(1, 3, "ref-bind") {
							kind = "bind"
						}
						var r *clientRef
						for _, x := range d.refs {
							if x.kind == kind && x.lf == lf && x.peer == p && AddrStr(x.remote) == AddrStr(remote) {
								r = x
							}
						}
						if r == nil {
							r = &clientRef{kind: kind, lf: lf, peer: p, remote: remote}
							d.refs = append(d.refs, r)
						}
						call := w.Logf("invoke %s-to-remote %s -> %s", kind, AddrStr(lf.Address()), AddrStr(remote))
						simrt.Self().OpSeq = call
						var err *model.ErrorType
						if w.T.Bool(1, 4, "ref-remove") {
							if kind == "sub" {
								_, err = lf.F.RemoveRemoteSubscription(remote)
							} else {
								_, err = lf.F.RemoveRemoteBinding(remote)
							}
							d.refOp(r, "un"+kind, call, w.Logf("return remove err=%v", err != nil), err == nil)
						} else {
							if kind == "sub" {
								_, err = lf.F.SubscribeToRemote(remote)
							} else {
								_, err = lf.F.BindToRemote(remote)
							}
							d.refOp(r, kind, call, w.Logf("return add err=%v", err != nil), err == nil)
						}
					}
				})
			}
			// an independent fault task removes connections / entities at arbitrary points
			w.Go("faults", func() {
				n := 1 + w.T.Choose(3, "nfaults")
				for i := 0; i < n; i++ {
					for k := w.T.Choose(12, "fault-delay"); k > 0; k-- {
						w.Yield("fault-delay")
					}
					p := pr.Peers[w.T.Choose(len(pr.Peers), "fault-peer")]
					if p.Conn == nil || p.Conn.Closed {
						continue
					}
					call := w.Logf("fault conn.drop %s (independent)", p.Name)
					simrt.Self().OpSeq = call
					if p.Conn.Handling {
						w.Probe("drop-while-own-message-in-handling")
					}
					for _, q := range pr.Peers {
						if q != p && q.Conn.Handling {
							w.Probe("drop-while-other-peer-message-in-handling")
						}
					}
					ok := pr.L.DisconnectThen(p.Name, func() {
						// the device can no longer be resolved
						if pr.L.Dev.RemoteDeviceForSki(p.Conn.Ski) != nil {
							d.lookups = append(d.lookups, "RemoteDeviceForSki("+p.Name+")")
						}
						if pr.L.Dev.RemoteDeviceForAddress(model.AddressDeviceType(p.Addr)) != nil {
							d.lookups = append(d.lookups, "RemoteDeviceForAddress("+p.Name+")")
						}
						w.Probe("removed-device-lookup-checked")
					})
					if !ok {
						continue
					}
					w.Fault("conn.drop")
					ret := p.Conn.RemovedAt
					a.extra = append(a.extra, RegOp{Kind: "drop", Peer: p.Name, OK: true, Call: p.Conn.RemoveBeganAt, Return: ret, Desc: "conn.drop"})
					d.drops[p.Name] = append(d.drops[p.Name], ret)
				}
			})
			w.scData = d
		},
		Settle: func(w *World) {
			// after the faults: every connected peer is still served
			d := w.scData.(*c10Data)
			for _, p := range d.a.pr.Peers {
				if p.Conn != nil && !p.Conn.Closed {
					cmd := model.CmdType{NodeManagementDetailedDiscoveryData: &model.NodeManagementDetailedDiscoveryDataType{}}
					ctr := p.SendCmd(p.NM().Address(), p.LocalNM(), model.CmdClassifierTypeRead, nil, cmd, "probe-read")
					p.probeCtr = ctr
				}
			}
		},
		Check: func(w *World) {
			d := w.scData.(*c10Data)
			a := d.a
			pr := a.pr
			L := pr.L
			extra := a.finishExtra()
			for _, what := range d.lookups {
				w.Violate("C10/removed-device-still-resolvable", "%s still returns the device after RemoveRemoteDeviceConnection returned", what)
			}
			// 1. registries: histories with drop / entity-removal operations must be linearizable
			// against the sequential registry, including the final listings of every peer
			for _, fam := range []struct {
				rs     *regScript
				single bool
				name   string
			}{{a.binds, true, "binding"}, {a.subs, false, "subscription"}} {
				ops := fam.rs.collect("C10")
				ops = append(ops, extra...)
				end := w.Stamp()
				for _, p := range pr.Peers {
					var l string
					if p.Conn.Closed {
						// nothing may be left: look at every server feature
						var left []string
						for _, sf := range pr.Servers {
							if fam.single {
								for _, b := range L.Dev.BindingManager().BindingsOnFeature(*sf.F.Address()) {
									if b.ClientFeature.Device().Ski() == p.Conn.Ski {
										left = append(left, RegKey{p.Name, AddrStr(b.ClientFeature.Address()), AddrStr(b.ServerFeature.Address())}.String())
									}
								}
							} else {
								for _, b := range L.Dev.SubscriptionManager().SubscriptionsOnFeature(*sf.F.Address()) {
									if b.ClientFeature.Device().Ski() == p.Conn.Ski {
										left = append(left, RegKey{p.Name, AddrStr(b.ClientFeature.Address()), AddrStr(b.ServerFeature.Address())}.String())
									}
								}
							}
						}
						sort.Strings(left)
						l = strings.Join(left, ";")
					} else if fam.single {
						l, _ = bindingListing(L, p)
					} else {
						l, _ = subscriptionListing(L, p)
					}
					ops = append(ops, RegOp{Kind: "list", Peer: p.Name, Listing: l, OK: true, Call: end, Return: end + 1, ClientID: 999, Desc: "final"})
				}
				w.Stamp()
				checkRegLinearizable(w, "C10/"+fam.name, splitDrops(ops, pr.Peers), fam.single)
				// removal events: one per registry entry that existed when its owner went away is
				// implied by the listing check for state; count events against granted/removed
				granted, removedByCall := 0, 0
				for _, o := range ops {
					if (o.Kind == "bind" || o.Kind == "sub") && o.OK {
						granted++
					}
					if (o.Kind == "unbind" || o.Kind == "unsub") && o.OK {
						removedByCall++
					}
				}
				left := 0
				if !fam.single {
					// (subscriptions of the peers' node management features to ours)
					left += len(L.Dev.SubscriptionManager().SubscriptionsOnFeature(*FAddr(L.Addr, []uint{0}, 0)))
				}
				for _, sf := range pr.Servers {
					if fam.single {
						left += len(L.Dev.BindingManager().BindingsOnFeature(*sf.F.Address()))
					} else {
						left += len(L.Dev.SubscriptionManager().SubscriptionsOnFeature(*sf.F.Address()))
					}
				}
				et := api.EventTypeSubscriptionChange
				if fam.single {
					et = api.EventTypeBindingChange
				}
				// (events of the peers the registry model follows; PN has its own feature and checks)
				adds, rems := 0, 0
				for _, p := range pr.Peers {
					adds += d.ev.Count(et, api.ElementChangeAdd, p.Conn.Ski)
					rems += d.ev.Count(et, api.ElementChangeRemove, p.Conn.Ski)
				}
				if adds != granted {
					w.Violate("C10/"+fam.name+"-add-events", "%d %s-added events for %d granted requests", adds, fam.name, granted)
				}
				if rems != granted-left {
					w.Violate("C10/"+fam.name+"-remove-events", "%d %s-removed events, but %d entries were granted and %d remain (%d removed by delete calls)", rems, fam.name, granted, left, removedByCall)
				}
				if granted > 0 && len(d.drops) > 0 {
					w.Probe("teardown-with-state")
				}
			}
			// 2. device-removed events: one per removal
			for _, p := range pr.Peers {
				n := d.ev.Count(api.EventTypeDeviceChange, api.ElementChangeRemove, p.Conn.Ski)
				want := 0
				for _, o := range extra {
					if o.Kind == "drop" && o.Peer == p.Name {
						want++
					}
				}
				if n != want {
					w.Violate("C10/device-removed-events", "%d device-removed events for %s, want %d", n, p.Name, want)
				}
			}
			// 3. pending approvals: none may remain for a removed connection, others keep theirs
			for _, sf := range d.approval {
				pend := spine.VerifPendingApprovals(sf.F)
				for _, p := range pr.Peers {
					if p.Conn.Closed && len(pend[p.Conn.Ski]) > 0 {
						w.Violate("C10/pending-approval-survives-removal", "feature %s still has pending approvals %v for removed %s", AddrStr(sf.F.Address()), pend[p.Conn.Ski], p.Name)
					}
				}
			}
			if pn := d.pn; pn != nil && pn.Conn.Closed && pn.Conn.RemovedAt != 0 {
				for _, sf := range []*LFeat{d.pnSrv} {
					if pend := spine.VerifPendingApprovals(sf.F)[pn.Conn.Ski]; len(pend) > 0 {
						w.Violate("C10/pending-approval-survives-removal", "feature %s still has pending approvals %v for the removed PN (a peer whose device address never became known)", AddrStr(sf.F.Address()), pend)
					}
				}
				for _, s := range pn.Conn.Out {
					// (its write had been handled before the removal began: nothing of it was in flight)
					// (and a timer callback that began before the removal had returned was in flight too)
					if s.Stale && s.Seq > pn.Conn.RemovedAt && s.OpSeq > pn.Conn.RemovedAt && d.pnPending > 0 {
						w.Violate("C10/write-to-removed-connection", "%s wrote to the removed connection of PN at %d (removed at %d): %s", s.Task, s.Seq, pn.Conn.RemovedAt, DescribeDatagram(s.D, s.Raw))
					}
				}
			}
			// 4. nothing is written to a removed connection by an operation that began after the
			// removal had returned, nor by an approval timer that was armed before the removal began
			// (the drain advanced past all of them). Tolerated (DESIGN section 4): consequences of
			// operations that were in flight during the removal - a timer armed by a write whose
			// handling overlapped the removal, and anything sent on behalf of a registry entry that a
			// request overlapping the removal may have left behind.
			allReg := append(a.binds.collect("C10"), a.subs.collect("C10")...)
			for _, p := range pr.Peers {
				ambiguous := false
				for _, o := range allReg {
					if o.Peer != p.Name || !o.OK || (o.Kind != "bind" && o.Kind != "sub") {
						continue
					}
					for _, x := range extra {
						if x.Kind == "drop" && x.Peer == p.Name && o.Call < x.Return && x.Call < o.Return {
							ambiguous = true
						}
					}
				}
				for _, s := range p.Conn.Out {
					if !s.Stale {
						continue
					}
					w.Probe("stale-write-observed")
					var drop *RegOp
					for i := range extra {
						o := extra[i]
						if o.Kind == "drop" && o.Peer == p.Name && o.Return <= s.Seq && (drop == nil || o.Return > drop.Return) {
							drop = &extra[i]
						}
					}
					if drop == nil {
						continue
					}
					isTimer := strings.HasPrefix(s.Task, "timer:")
					switch {
					case isTimer && s.ArmSeq < drop.Call && s.OpSeq > drop.Return:
						// armed before the removal began (so the cleanup knew it) and fired after it returned
						w.Violate("C10/write-to-removed-connection/approval-timer", "%s (armed at %d, fired after the removal) wrote %s to the removed connection of %s (connection generation %d): the removal ran [%d,%d]",
							s.Task, s.ArmSeq, DescribeDatagram(s.D, s.Raw), p.Name, s.Gen, drop.Call, drop.Return)
					case !isTimer && s.OpSeq > drop.Return && !ambiguous:
						w.Violate("C10/write-to-removed-connection/operation", "%s wrote %s to the removed connection of %s (connection generation %d): the operation began at %d, the removal had returned at %d",
							s.Task, DescribeDatagram(s.D, s.Raw), p.Name, s.Gen, s.OpSeq, drop.Return)
					case ambiguous:
						w.Probe("stale-write-tolerated-in-flight-registry-request")
					}
				}
			}
			// 5. client-side bookkeeping of local client features
			for _, r := range d.refs {
				ops := append(append([]RegOp(nil), r.ops...), extra...)
				key := RegKey{r.peer.Name, AddrStr(r.remote), AddrStr(r.lf.Address())}
				end := w.Stamp()
				st := subscribedState(ops, r.kind, key, end, end+1)
				// an API call that overlapped a removal of its target leaves the outcome open
				for _, o := range r.ops {
					for _, x := range extra {
						if x.Peer == r.peer.Name && o.Call < x.Return && x.Call < o.Return {
							st = -1
						}
					}
				}
				var has bool
				if r.kind == "sub" {
					has = r.lf.F.HasSubscriptionToRemote(r.remote)
				} else {
					has = r.lf.F.HasBindingToRemote(r.remote)
				}
				if st == 1 && !has {
					w.Violate("C10/client-side-reference-lost/"+r.kind, "%s lost its %s reference to %s although that peer/entity was never removed", AddrStr(r.lf.Address()), r.kind, AddrStr(r.remote))
				}
				if st == 0 && has {
					w.Violate("C10/client-side-reference-leaked/"+r.kind, "%s still has a %s reference to %s after its device/entity was removed", AddrStr(r.lf.Address()), r.kind, AddrStr(r.remote))
				}
				if st != -1 {
					w.Probe("client-side-reference-checked")
				}
			}
			// 6. every connected peer is still served
			for _, p := range pr.Peers {
				if p.probeCtr == 0 {
					continue
				}
				n := 0
				for _, s := range p.Responses(p.probeCtr) {
					if Classifier(s) == "reply" && !s.Stale {
						n++
					}
				}
				if n != 1 && !p.Conn.Closed {
					w.Violate("C10/peer-not-served-after-teardown", "%s got %d replies to a discovery read after the faults stopped", p.Name, n)
				}
				w.Probe("probe-read-answered")
			}
			w.State(fmt.Sprint(len(extra), len(d.refs)))
		},
	})
}
