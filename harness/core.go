// Package harness contains the simulator proper: choice tape, world, scheduler policy,
// simulated network, scripted peers, oracles per property, replay and minimisation.
package harness

import (
	"crypto/sha256"
	"encoding/binary"
	"encoding/hex"
	"fmt"
	"math/rand/v2"
	"sort"
	"strings"
	"time"

	"verifsim/simrt"
)

// ---------------------------------------------------------------------------------------
// choice tape

// Tape is the single source of every decision of a run. It consists of named streams: one
// for the generated configuration ("build"), one for the scheduler ("sched") and one per
// task name for the decisions that task makes while it runs (workload, faults). Separate
// streams keep the minimiser effective: removing a scheduling decision does not shift the
// workload decisions of a script and vice versa. In generate mode every stream is a PRNG
// seeded from (run seed, stream name); in replay mode values come from the recorded streams
// (reduced modulo the number of alternatives; past the end every choice is 0, the simplest).
type Tape struct {
	seed    uint64
	gen     bool
	streams map[string]*tstream
	order   []string
	Trace   bool
	Labels  []string // decoded choices in global order (only when Trace)
	Phase   string   // stream used by the scheduler goroutine: "build" or "sched"
	n       int
	// Override fixes the value of labelled draws of the build stream (directed re-execution);
	// the fixed value is what gets recorded
	Override map[string]uint32
}

type tstream struct {
	rng    *rand.Rand
	replay []uint32
	pos    int
	rec    []uint32
}

// TapeData is the serialised form: stream name -> values.
type TapeData map[string][]uint32

func NewTapeSeed(seed uint64) *Tape {
	return &Tape{seed: seed, gen: true, streams: map[string]*tstream{}, Phase: "build"}
}

func NewTapeReplay(d TapeData) *Tape {
	t := &Tape{streams: map[string]*tstream{}, Phase: "build"}
	for k, v := range d {
		t.streams[k] = &tstream{replay: v}
		t.order = append(t.order, k)
	}
	sort.Strings(t.order)
	return t
}

//go:norace
func (t *Tape) stream() (*tstream, string) {
	name := t.Phase
	if task := simrt.Self(); task != nil {
		name = task.Name
	}
	s := t.streams[name]
	if s == nil {
		s = &tstream{}
		if t.gen {
			s.rng = rand.New(rand.NewPCG(t.seed, fnv64(name)))
		}
		t.streams[name] = s
		t.order = append(t.order, name)
	}
	return s, name
}

//go:norace
func (t *Tape) Choose(n int, label string) int {
	if n <= 1 {
		return 0
	}
	s, name := t.stream()
	if t.n > 2000000 {
		panic("tape budget exceeded: a generator loops without making progress")
	}
	var v uint32
	if s.rng != nil {
		v = uint32(s.rng.IntN(n))
	} else {
		if s.pos < len(s.replay) {
			v = s.replay[s.pos] % uint32(n)
		}
		s.pos++
	}
	if t.Override != nil && name == "build" {
		if ov, ok := t.Override[label]; ok {
			v = ov % uint32(n)
		}
	}
	s.rec = append(s.rec, v)
	t.n++
	if t.Trace {
		t.Labels = append(t.Labels, fmt.Sprintf("%s/%s=%d/%d", name, label, v, n))
	}
	return int(v)
}

// Force records v as the outcome of a draw among n alternatives (a scheduler that decides by
// other means than the tape writes its decisions down in the form the ordinary policy reads).
//
//go:norace
func (t *Tape) Force(n, v int, label string) int {
	if n <= 1 {
		return 0
	}
	s, name := t.stream()
	s.pos++
	s.rec = append(s.rec, uint32(v))
	t.n++
	if t.Trace {
		t.Labels = append(t.Labels, fmt.Sprintf("%s/%s=%d/%d (directed)", name, label, v, n))
	}
	return v
}

// Data returns what was consumed, with trailing zeros stripped (they are implicit).
//
//go:norace
func (t *Tape) Data() TapeData {
	d := TapeData{}
	for k, s := range t.streams {
		r := s.rec
		for len(r) > 0 && r[len(r)-1] == 0 {
			r = r[:len(r)-1]
		}
		if len(r) > 0 {
			d[k] = append([]uint32(nil), r...)
		}
	}
	return d
}

//go:norace
func (t *Tape) Len() int { return t.n }

func (d TapeData) Len() int {
	n := 0
	for _, v := range d {
		n += len(v)
	}
	return n
}

func (d TapeData) Sum() uint64 {
	var s uint64
	for _, v := range d {
		for _, x := range v {
			s += uint64(x)
		}
	}
	return s
}

func (d TapeData) Clone() TapeData {
	c := TapeData{}
	for k, v := range d {
		c[k] = append([]uint32(nil), v...)
	}
	return c
}

func (d TapeData) Keys() []string {
	var k []string
	for s := range d {
		k = append(k, s)
	}
	sort.Strings(k)
	return k
}

// Bool draws a boolean that is true with probability num/den; 0 on the tape means false.
//
//go:norace
func (t *Tape) Bool(num, den int, label string) bool {
	if num <= 0 {
		return false
	}
	v := t.Choose(den, label)
	return v >= 1 && v <= num
}

// ---------------------------------------------------------------------------------------
// violations

type Violation struct {
	Property  string `json:"property"`
	Signature string `json:"signature"` // stable shape key: invariant id + shape, no seeds, no line numbers
	Detail    string `json:"detail"`
	Seq       uint64 `json:"seq"`
}

// ---------------------------------------------------------------------------------------
// world

type World struct {
	S        *simrt.Sched
	T        *Tape
	Prop     string
	Seq      uint64
	Log      []string
	KeepLog  bool
	logHash  [32]byte
	Viol     []Violation
	Probes   map[string]int
	Faults   map[string]int
	Start    time.Time
	Steps    int
	MaxSteps int

	// scheduling strategy of this run
	strat      int
	lockStuck  bool         // the main phase ended with tasks blocked on locks and nothing enabled
	dir        *directedCfg // deadlock-directed re-execution (see directed.go)
	preemptNum int          // preemption probability preemptNum/preemptDen
	preemptDen int
	advNum     int // probability of advancing the clock while tasks are enabled: advNum/64
	pctPrio    map[int]int
	pctChange  map[int]bool
	Preempts   int
	Advances   int

	FaultsOn bool
	stopNow  bool

	planTasks []*simrt.Task
	deadlines []time.Time // harness sleeps

	cleanup []func()

	FaultRate map[string]int         // per kind: probability n/64 per opportunity
	StepCheck func()                 // invariant evaluated after every scheduling step
	scData    any                    // scenario private data handed from Build to Check
	ArmSeq    map[*simrt.Task]uint64 // sequence number at which a timer task was armed / a goroutine spawned
	SpawnHook func(t *simrt.Task)    // scenario hook, called when the stack spawns a goroutine or arms a timer
	uniq      int
	// GenStructs: generated items and wide selectors also carry structured elements
	GenStructs bool

	States map[string]struct{} // distinct abstract states (hashes) seen
}

func newWorld(prop string, tape *Tape) *World {
	return &World{T: tape, Prop: prop, Probes: map[string]int{}, Faults: map[string]int{}, MaxSteps: 20000,
		FaultsOn: true, States: map[string]struct{}{}}
}

//go:norace
func (w *World) Now() time.Duration { return time.Since(w.Start) }

// Logf appends one canonical event to the run log.
//
//go:norace
func (w *World) Logf(format string, a ...any) uint64 {
	w.Seq++
	who := "sched"
	if t := simrt.Self(); t != nil {
		who = t.String()
	}
	line := fmt.Sprintf("%d t=%dus %s ", w.Seq, w.Now().Microseconds(), who) + fmt.Sprintf(format, a...)
	h := sha256.New()
	h.Write(w.logHash[:])
	h.Write([]byte(line))
	copy(w.logHash[:], h.Sum(nil))
	if w.KeepLog {
		w.Log = append(w.Log, line)
	}
	return w.Seq
}

//go:norace
func (w *World) Stamp() uint64 { w.Seq++; return w.Seq }

// schedNote mixes a scheduling decision into the log hash without consuming a sequence number.
//
//go:norace
func (w *World) schedNote(kind byte, a, b int) {
	var buf [17 + 32]byte
	copy(buf[:32], w.logHash[:])
	buf[32] = kind
	binary.LittleEndian.PutUint64(buf[33:], uint64(a))
	binary.LittleEndian.PutUint64(buf[41:], uint64(b))
	w.logHash = sha256.Sum256(buf[:])
}

//go:norace
func (w *World) LogHash() string { return hex.EncodeToString(w.logHash[:]) }

//go:norace
func (w *World) Probe(name string) { w.Probes[name]++ }

//go:norace
func (w *World) ProbeN(name string, n int) { w.Probes[name] += n }

//go:norace
func (w *World) Fault(kind string) { w.Faults[kind]++ }

//go:norace
func (w *World) State(key string) {
	h := sha256.Sum256([]byte(key))
	w.States[string(h[:8])] = struct{}{}
}

// EnableFaults selects, swarm style, a random subset of the offered fault kinds for this run
// and a rate for each. An all-zero tape enables none.
//
//go:norace
func (w *World) EnableFaults(kinds ...string) {
	if w.FaultRate == nil {
		w.FaultRate = map[string]int{}
	}
	for _, k := range kinds {
		if w.T.Bool(1, 2, "fault-kind:"+k) {
			w.FaultRate[k] = []int{2, 4, 8, 16}[w.T.Choose(4, "fault-rate:"+k)]
		}
	}
}

//go:norace
func (w *World) faultHit(kind string) bool {
	r := w.FaultRate[kind]
	if r == 0 || !w.FaultsOn {
		return false
	}
	return w.T.Bool(r, 64, kind)
}

// Violate records a violation. sig must be stable across seeds.
//
//go:norace
func (w *World) Violate(sig, format string, a ...any) {
	d := fmt.Sprintf(format, a...)
	for _, v := range w.Viol {
		if v.Signature == sig {
			return
		}
	}
	w.Viol = append(w.Viol, Violation{Property: w.Prop, Signature: sig, Detail: d, Seq: w.Seq})
	w.Logf("VIOLATION %s %s", sig, d)
}

//go:norace
func (w *World) OnCleanup(f func()) { w.cleanup = append(w.cleanup, f) }

// onSpawn is installed as the scheduler's spawn hook.
//
//go:norace
func (w *World) onSpawn(t *simrt.Task) {
	if w.ArmSeq == nil {
		w.ArmSeq = map[*simrt.Task]uint64{}
	}
	w.ArmSeq[t] = w.Seq
	if w.SpawnHook != nil {
		w.SpawnHook(t)
	}
}

// Go starts a harness task that belongs to the plan (the main phase lasts until all plan
// tasks have finished).
//
//go:norace
func (w *World) Go(name string, fn func()) *simrt.Task {
	t := w.S.Spawn(name, "app", fn)
	w.planTasks = append(w.planTasks, t)
	w.prio(t)
	return t
}

// GoBackground starts a harness task that is not part of the plan (reader loops).
//
//go:norace
func (w *World) GoBackground(name, kind string, fn func()) *simrt.Task {
	t := w.S.Spawn(name, kind, fn)
	w.prio(t)
	return t
}

// Sleep parks the calling task until d of simulated time has passed.
//
//go:norace
func (w *World) Sleep(d time.Duration) {
	until := time.Now().Add(d)
	w.deadlines = append(w.deadlines, until)
	simrt.WaitUntil("sleep", func() bool { return !time.Now().Before(until) })
}

//go:norace
func (w *World) Yield(label string) { simrt.Yield(label) }

// ---------------------------------------------------------------------------------------
// scheduling policy

const (
	stratRTC  = 0 // run to completion with random preemptions
	stratWalk = 1 // uniform random walk
	stratPCT  = 2
)

//go:norace
func (w *World) initStrategy() {
	w.strat = w.T.Choose(3, "strategy")
	w.preemptDen = 64
	w.preemptNum = []int{0, 2, 4, 8, 16, 32}[w.T.Choose(6, "preempt-rate")]
	w.advNum = []int{0, 1, 4, 16}[w.T.Choose(4, "advance-rate")]
	if w.strat == stratPCT {
		w.pctPrio = map[int]int{}
		w.pctChange = map[int]bool{}
		d := w.T.Choose(4, "pct-depth")
		for i := 0; i < d; i++ {
			w.pctChange[w.T.Choose(400, "pct-change-point")] = true
		}
	}
}

//go:norace
func (w *World) prio(t *simrt.Task) {
	if w.strat == stratPCT && w.pctPrio != nil {
		w.pctPrio[t.ID] = 1000 + w.T.Choose(1000, "pct-prio")
	}
}

//go:norace
func (w *World) nextEvent() (time.Time, bool) {
	at, ok := w.S.NextEvent()
	now := time.Now()
	keep := w.deadlines[:0]
	for _, d := range w.deadlines {
		if d.After(now) {
			keep = append(keep, d)
			if !ok || d.Before(at) {
				at, ok = d, true
			}
		}
	}
	w.deadlines = keep
	return at, ok
}

// canAdvance applies rule T2.
//
//go:norace
func (w *World) canAdvance() (time.Time, bool) {
	at, ok := w.nextEvent()
	if !ok {
		return at, false
	}
	// (the clock is moved to at+1ns, see Sched.AdvanceTo: that instant must still lie before the tick)
	if lim, have := w.S.BusyTickLimit(); have && !at.Add(time.Nanosecond).Before(lim) {
		return at, false
	}
	return at, true
}

//go:norace
func (w *World) enabled() []*simrt.Task {
	var en []*simrt.Task
	for _, t := range w.S.Tasks() {
		if w.S.Enabled(t) {
			en = append(en, t)
		}
	}
	return en
}

//go:norace
func (w *World) advanceTo(at time.Time, why string) {
	w.Advances++
	seq := w.Logf("advance to +%dus (%s)", at.Sub(w.Start).Microseconds(), why)
	var armed []*simrt.Task
	for _, t := range w.S.Tasks() {
		if t.Armed() {
			armed = append(armed, t)
		}
	}
	if !at.After(time.Now()) {
		// harness sleep deadlines are inclusive
		w.S.AdvanceBy(0)
	} else {
		w.S.AdvanceTo(at)
	}
	// a timer callback is an operation that begins when the timer fires (its goroutine
	// exists from then on), not when the scheduler first lets it run
	for _, t := range armed {
		if !t.Armed() && !t.Dead() && t.OpSeq == 0 {
			t.OpSeq = seq
		}
	}
}

//go:norace
func (w *World) notePanics() {
	for _, t := range w.S.Panics {
		if t.PanicVal == nil {
			continue
		}
		if ob, ok := t.PanicVal.(simrt.ObserverBlocked); ok {
			w.Logf("tool: observer blocked in task %s: %v", t, ob)
			continue
		}
		fn := panicSite(t.PanicStack)
		w.Violate("panic/"+fn, "task %s panicked: %v\n%s", t, t.PanicVal, trimStack(t.PanicStack))
		w.stopNow = true
	}
	w.S.Panics = nil
}

// step performs one scheduling decision. It returns false when nothing can happen.
//
//go:norace
func (w *World) step(draw bool) bool {
	w.notePanics()
	if w.stopNow {
		return false
	}
	en := w.enabled()
	at, adv := w.canAdvance()
	if len(en) == 0 {
		if adv {
			w.advanceTo(at, "idle")
			return true
		}
		return false
	}
	w.Steps++
	var cur *simrt.Task
	for _, t := range en {
		if t == w.S.Current {
			cur = t
		}
	}
	var pick *simrt.Task
	if !draw {
		// drain: deterministic, continue current else lowest id
		pick = cur
		if pick == nil {
			pick = en[0]
		}
	} else {
		if w.dir != nil {
			p, advanced := w.directedPick(en, cur, at, adv)
			if advanced {
				return true
			}
			pick = p
		} else if adv && w.advNum > 0 && w.T.Bool(w.advNum, 64, "advance?") {
			w.advanceTo(at, "while-busy")
			w.Probe("clock-advanced-while-tasks-enabled")
			w.Fault("task.stall")
			return true
		}
		switch {
		case pick != nil:
		default:
			switch w.strat {
			case stratWalk:
				// order: current first so that 0 continues
				opts := en
				if cur != nil {
					opts = append([]*simrt.Task{cur}, without(en, cur)...)
				}
				pick = opts[w.T.Choose(len(opts), "walk")]
			case stratPCT:
				if w.pctChange[w.Steps] && cur != nil {
					w.pctPrio[cur.ID] = w.Steps - 100000 // lower than any initial priority, later change points lower still... (monotone)
					w.pctPrio[cur.ID] = -w.Steps
				}
				best := en[0]
				for _, t := range en {
					if w.pctPrio[t.ID] > w.pctPrio[best.ID] {
						best = t
					}
				}
				pick = best
			default:
				if cur != nil {
					others := without(en, cur)
					if len(others) > 0 && w.T.Bool(w.preemptNum, w.preemptDen, "preempt?") {
						pick = others[w.T.Choose(len(others), "preempt-to")]
					} else {
						pick = cur
					}
				} else {
					pick = en[w.T.Choose(len(en), "next")]
				}
			}
		}
	}
	// scheduling decisions go into the hash in compact form in every mode (sequence numbers
	// and hash must not depend on whether the readable log is kept)
	if cur != nil && pick != cur {
		w.Preempts++
		w.schedNote('p', cur.ID, pick.ID)
		if w.KeepLog {
			w.Log = append(w.Log, fmt.Sprintf("  preempt %s at %s -> run %s (%s)", cur, cur.OpString(), pick, pick.OpString()))
		}
	} else if pick != w.S.Current {
		w.schedNote('r', 0, pick.ID)
		if w.KeepLog {
			w.Log = append(w.Log, fmt.Sprintf("  run %s (%s)", pick, pick.OpString()))
		}
	}
	if pick.Steps == 0 && pick.OpSeq == 0 {
		pick.OpSeq = w.Seq + 1
	}
	w.S.Release(pick)
	if w.StepCheck != nil && !w.stopNow {
		w.StepCheck()
	}
	return true
}

//go:norace
func without(l []*simrt.Task, x *simrt.Task) []*simrt.Task {
	var r []*simrt.Task
	for _, t := range l {
		if t != x {
			r = append(r, t)
		}
	}
	return r
}

//go:norace
func (w *World) planDone() bool {
	for _, t := range w.planTasks {
		if !t.Done() {
			return false
		}
	}
	return true
}

// RunMain runs the main phase: until nothing can happen any more or the step budget is used.
//
//go:norace
func (w *World) RunMain() {
	stuck := 0
	idle := 0
	for w.Steps < w.MaxSteps {
		// the plan is complete and nothing is runnable: periodic timers (heartbeats) alone do
		// not keep the main phase alive
		if len(w.enabled()) == 0 {
			if w.planDone() {
				return
			}
			// nothing but periodic timers for a very long time while the plan does not finish (a
			// task waits for something that never comes): the main phase must end all the same
			idle++
			if idle > 5000 {
				w.Logf("main phase ends: the plan makes no progress, only timers fire")
				w.Probes["tool-plan-made-no-progress"]++
				return
			}
			// tasks blocked on locks and nothing to run: time alone frees no lock that a blocked
			// task holds; periodic timers must not keep such a state alive for ever
			if w.lockBlocked() {
				stuck++
				if stuck > 200 {
					w.Logf("main phase ends: tasks blocked on locks, nothing enabled")
					w.lockStuck = true
					return
				}
			}
		} else {
			stuck = 0
			idle = 0
		}
		if !w.step(true) {
			return
		}
	}
	w.Logf("tool: step budget exhausted")
	w.Probes["tool-step-budget-exhausted"]++
}

// Drain runs everything to completion without faults and without tape draws: all queues
// delivered, the clock advanced past every armed timer, all tasks run until they finish.
//
//go:norace
func (w *World) Drain() {
	w.FaultsOn = false
	w.Logf("drain")
	for i := 0; i < w.MaxSteps && !w.stopNow; i++ {
		if !w.drainStep() {
			break
		}
	}
	w.notePanics()
}

//go:norace
func (w *World) drainStep() bool {
	w.notePanics()
	if w.stopNow {
		return false
	}
	en := w.enabled()
	if len(en) > 0 {
		return w.step(false)
	}
	// nothing enabled: advance only while an armed timer or a harness sleep is pending
	var next time.Time
	have := false
	for _, t := range w.S.Tasks() {
		if t.Armed() {
			if !have || t.Deadline.Before(next) {
				next, have = t.Deadline, true
			}
		}
	}
	now := time.Now()
	for _, d := range w.deadlines {
		if d.After(now) && (!have || d.Before(next)) {
			next, have = d, true
		}
	}
	if !have {
		return false
	}
	at, ok := w.canAdvance()
	if !ok {
		return false
	}
	w.advanceTo(at, "drain")
	return true
}

// Deadlocked reports tasks that are parked on a modelled lock (or an unsatisfied wait of a
// plan task) once nothing is enabled.
//
//go:norace
func (w *World) lockBlocked() bool {
	for _, t := range w.S.Tasks() {
		if t.Parked() {
			if k := t.OpKind(); k == "lock" || k == "rlock" || k == "wlockwait" {
				return true
			}
		}
	}
	return false
}

//go:norace
func (w *World) CheckNoDeadlock() {
	if len(w.enabled()) > 0 {
		return
	}
	var stuck []string
	var sigParts []string
	for _, t := range w.S.Tasks() {
		if !t.Parked() {
			continue
		}
		k := t.OpKind()
		if k == "lock" || k == "rlock" || k == "wlockwait" {
			stuck = append(stuck, t.String()+" "+t.OpString())
			loc := t.OpString()
			if i := strings.LastIndexByte(loc, ':'); i > 0 {
				loc = loc[:i]
			}
			sigParts = append(sigParts, loc)
		}
	}
	if len(stuck) > 0 {
		sort.Strings(sigParts)
		w.Violate("deadlock/"+strings.Join(uniq(sigParts), "+"), "tasks blocked forever on the stack's own locks: %s; all: %s",
			strings.Join(stuck, "; "), strings.Join(w.S.BlockedReport(), "; "))
		// the scenario's own check would call into a stack whose locks are held for ever
		w.stopNow = true
	}
}

func uniq(s []string) []string {
	var r []string
	for i, x := range s {
		if i == 0 || x != s[i-1] {
			r = append(r, x)
		}
	}
	return r
}

func panicSite(stack string) string {
	// first frame after the panic machinery that belongs to spine-go, else first non-runtime frame
	lines := strings.Split(stack, "\n")
	first := ""
	for i := 0; i+1 < len(lines); i++ {
		l := lines[i]
		if strings.HasPrefix(l, "\t") || strings.HasPrefix(l, "goroutine ") || l == "" {
			continue
		}
		fn := l
		if j := strings.LastIndexByte(fn, '('); j > 0 {
			fn = fn[:j]
		}
		if strings.HasPrefix(fn, "runtime.") || strings.HasPrefix(fn, "runtime/") || strings.HasPrefix(fn, "panic") ||
			strings.Contains(fn, "verifsim/simrt") || strings.HasPrefix(fn, "reflect.") {
			continue
		}
		short := fn
		if j := strings.LastIndexByte(short, '/'); j >= 0 {
			short = short[j+1:]
		}
		if first == "" {
			first = short
		}
		if strings.Contains(fn, "enbility/spine-go") {
			return short
		}
	}
	if first == "" {
		return "unknown"
	}
	return first
}

func trimStack(s string) string {
	// keep function names and file:line only: addresses, argument values and goroutine ids
	// differ between executions and must not reach the canonical log
	var out []string
	for _, l := range strings.Split(s, "\n") {
		if strings.HasPrefix(l, "goroutine ") || strings.HasPrefix(l, "created by ") {
			continue
		}
		if strings.HasPrefix(l, "\t") {
			if i := strings.Index(l, " +0x"); i > 0 {
				l = l[:i]
			}
		} else if i := strings.LastIndexByte(l, '('); i > 0 {
			l = l[:i]
		}
		out = append(out, l)
		if len(out) >= 40 {
			break
		}
	}
	return strings.Join(out, "\n")
}

// Observe runs f on the scheduler goroutine while every task is parked. If f needs a lock
// that a parked task holds it is abandoned (returns false): an invariant is only evaluated in
// states in which the API it uses is not in the middle of a critical section.
//
//go:norace
func (w *World) Observe(f func()) (ok bool) {
	defer func() {
		if r := recover(); r != nil {
			if _, isOB := r.(simrt.ObserverBlocked); isOB {
				w.S.ReleaseObserverLocks()
				w.Probes["observer-skipped"]++
				ok = false
				return
			}
			panic(r)
		}
	}()
	f()
	return true
}

// scriptsDone reports whether every plan task whose name starts with prefix has finished.
//
//go:norace
func (w *World) scriptsDone(prefix string) bool {
	for _, t := range w.planTasks {
		if strings.HasPrefix(t.Name, prefix) && !t.Done() {
			return false
		}
	}
	return true
}
