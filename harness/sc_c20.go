package harness

import (
	"fmt"
	"sort"
	"strings"
	"time"

	"github.com/enbility/spine-go/model"

	"verifsim/simrt"
)

// C20 — the use-case registry reflects exactly what the application declared.

type ucVal struct {
	version   string
	subRev    string
	available bool
	scenarios string
}

type c20Data struct {
	L     *Node
	p     *Peer
	ents  []*LEnt
	model map[string]ucVal // "entity|actor|name"
	reads []*c20Read
	conc  bool
}

type c20Read struct {
	ctr    uint64
	expect string // canonical registry expected (sequential variant); "" = do not compare
}

var c20Actors = []model.UseCaseActorType{model.UseCaseActorTypeCEM, model.UseCaseActorTypeEnergyGuard}
var c20Names = []model.UseCaseNameType{model.UseCaseNameTypeLimitationOfPowerConsumption, model.UseCaseNameTypeLimitationOfPowerProduction, model.UseCaseNameTypeMonitoringOfPowerConsumption}

//go:norace
func ucKey(e *LEnt, a model.UseCaseActorType, n model.UseCaseNameType) string {
	return fmtUints(e.Addr) + "|" + string(a) + "|" + string(n)
}

// canonRegistry renders a registry (model or observed) as sorted lines.
//
//go:norace
func canonModel(m map[string]ucVal) string {
	var l []string
	for k, v := range m {
		l = append(l, fmt.Sprintf("%s=%s/%s/%v/%s", k, v.version, v.subRev, v.available, v.scenarios))
	}
	sort.Strings(l)
	return strings.Join(l, "\n")
}

//go:norace
func canonUseCaseData(d *model.NodeManagementUseCaseDataType) string {
	var l []string
	if d == nil {
		return ""
	}
	for _, ui := range d.UseCaseInformation {
		ent := "?"
		if ui.Address != nil {
			var e []uint
			for _, x := range ui.Address.Entity {
				e = append(e, uint(x))
			}
			ent = fmtUints(e)
		}
		actor := "?"
		if ui.Actor != nil {
			actor = string(*ui.Actor)
		}
		// (an actor entry without use cases reports nothing and is not compared)
		for _, s := range ui.UseCaseSupport {
			name, ver, sub, av := "?", "", "", false
			if s.UseCaseName != nil {
				name = string(*s.UseCaseName)
			}
			if s.UseCaseVersion != nil {
				ver = string(*s.UseCaseVersion)
			}
			if s.UseCaseDocumentSubRevision != nil {
				sub = *s.UseCaseDocumentSubRevision
			}
			if s.UseCaseAvailable != nil {
				av = *s.UseCaseAvailable
			}
			l = append(l, fmt.Sprintf("%s|%s|%s=%s/%s/%v/%s", ent, actor, name, ver, sub, av, fmt.Sprint(s.ScenarioSupport)))
		}
	}
	sort.Strings(l)
	return strings.Join(l, "\n")
}

// ucOps performs n random registry operations on entity e, updating the model, and checks
// HasUseCaseSupport against the model (the operations of one entity are sequential).
//
//go:norace
func (d *c20Data) ucOps(w *World, e *LEnt, n int) {
	for i := 0; i < n; i++ {
		a := c20Actors[w.T.Choose(len(c20Actors), "actor")]
		nm := c20Names[w.T.Choose(len(c20Names), "name")]
		key := ucKey(e, a, nm)
		switch k := w.T.Choose(10, "uc-op"); {
		case k < 4:
			ver := fmt.Sprintf("1.%d.0", w.Uniq())
			sub := fmt.Sprintf("r%d", w.Uniq())
			av := w.T.Bool(1, 2, "available")
			var sc []model.UseCaseScenarioSupportType
			for s := 0; s < 1+w.T.Choose(3, "nscen"); s++ {
				sc = append(sc, model.UseCaseScenarioSupportType(s+1))
			}
			w.Logf("AddUseCaseSupport %s", key)
			e.E.AddUseCaseSupport(a, nm, model.SpecificationVersionType(ver), sub, av, sc)
			d.model[key] = ucVal{ver, sub, av, fmt.Sprint(sc)}
		case k < 6:
			w.Logf("RemoveUseCaseSupport %s", key)
			e.E.RemoveUseCaseSupport(a, nm)
			delete(d.model, key)
		case k < 8:
			av := w.T.Bool(1, 2, "available")
			w.Logf("SetUseCaseAvailability %s %v", key, av)
			e.E.SetUseCaseAvailability(a, nm, av)
			if v, ok := d.model[key]; ok {
				v.available = av
				d.model[key] = v
			}
		case k < 9:
			if w.T.Bool(1, 3, "remove-all") {
				w.Logf("RemoveAllUseCaseSupports %s", fmtUints(e.Addr))
				e.E.RemoveAllUseCaseSupports()
				for mk := range d.model {
					if strings.HasPrefix(mk, fmtUints(e.Addr)+"|") {
						delete(d.model, mk)
					}
				}
			}
		default:
			w.Yield("uc-pause")
		}
		// HasUseCaseSupport for every key of this entity
		for _, aa := range c20Actors {
			for _, nn := range c20Names {
				_, want := d.model[ucKey(e, aa, nn)]
				if got := e.E.HasUseCaseSupport(aa, nn); got != want {
					shape := "reports-removed-or-never-added"
					if want {
						shape = "lost"
					}
					w.Violate("C20/has-use-case-support-"+shape, "HasUseCaseSupport(%s) = %v, the application's declarations say %v", ucKey(e, aa, nn), got, want)
				}
				w.Probe("c20-has-checked")
			}
		}
		if !d.conc && w.T.Bool(1, 3, "peer-reads") {
			// a peer reads the use case data now: it must equal the registry
			cmd := model.CmdType{NodeManagementUseCaseData: &model.NodeManagementUseCaseDataType{}}
			ctr := d.p.SendCmd(d.p.NM().Address(), d.p.LocalNM(), model.CmdClassifierTypeRead, nil, cmd, "read-usecases")
			d.reads = append(d.reads, &c20Read{ctr: ctr, expect: canonModel(d.model)})
			d.p.Await(ctr)
		}
	}
}

func c20Build(conc bool) func(w *World) {
	return func(w *World) {
		d := &c20Data{model: map[string]ucVal{}, conc: conc}
		w.scData = d
		d.L = w.NewNode("L", "d:_i:L", model.NetworkManagementFeatureSetTypeSmart)
		ne := 2 + w.T.Choose(2, "entities")
		// entity addresses may be nested ([1] and its sub-entity [1,1]): one address being a prefix
		// of another must not make them the same entity
		nested := w.T.Bool(1, 2, "nested-entity")
		for i := 0; i < ne; i++ {
			addr := []uint{uint(i + 1)}
			if nested && i == ne-1 {
				addr = []uint{1, 1}
				w.Probe("c20-nested-entity")
			}
			le := d.L.NewLocalEntity(addr, model.EntityTypeTypeCEM, 4*time.Second)
			d.L.AddEntity(le)
			d.ents = append(d.ents, le)
		}
		d.p = w.NewPeer("P1", "d:_i:P1", d.L)
		stdPeerTree(d.p, false)
		d.p.Connect()
		if conc {
			for _, e := range d.ents {
				e := e
				w.Go("uc:"+fmtUints(e.Addr), func() {
					d.ucOps(w, e, 2+w.T.Choose(6, "nops"))
				})
			}
			w.Probe("c20-concurrent-entities")
		} else {
			w.Go("uc:seq", func() {
				d.p.AwaitDiscovery()
				n := 4 + w.T.Choose(12, "nops")
				for i := 0; i < n; i++ {
					d.ucOps(w, d.ents[w.T.Choose(len(d.ents), "entity")], 1)
				}
			})
		}
	}
}

//go:norace
func c20Settle(w *World) {
	d := w.scData.(*c20Data)
	if d.p.Conn != nil && !d.p.Conn.Closed {
		cmd := model.CmdType{NodeManagementUseCaseData: &model.NodeManagementUseCaseDataType{}}
		ctr := d.p.SendCmd(d.p.NM().Address(), d.p.LocalNM(), model.CmdClassifierTypeRead, nil, cmd, "final-read-usecases")
		d.reads = append(d.reads, &c20Read{ctr: ctr, expect: canonModel(d.model)})
	}
	_ = simrt.Self
}

//go:norace
func c20Check(w *World) {
	d := w.scData.(*c20Data)
	want := canonModel(d.model)
	// the registry as the API reports it
	got := ""
	if x, ok := d.L.Dev.NodeManagement().DataCopy(model.FunctionTypeNodeManagementUseCaseData).(*model.NodeManagementUseCaseDataType); ok {
		got = canonUseCaseData(x)
	}
	if got != want {
		shape := "final-registry-differs"
		if d.conc {
			shape = "lost-update-between-entities"
		}
		w.Violate("C20/"+shape, "use case registry after all operations:\n%s\nthe application declared:\n%s", got, want)
	}
	// what the peer read
	for _, r := range d.reads {
		for _, del := range d.p.DeliveriesOf(r.ctr) {
			if !del.Done {
				continue
			}
			n := 0
			for _, s := range d.p.RespDuring(del) {
				if Classifier(s) != "reply" || s.D.Payload.Cmd[0].NodeManagementUseCaseData == nil {
					continue
				}
				n++
				if c := canonUseCaseData(s.D.Payload.Cmd[0].NodeManagementUseCaseData); c != r.expect {
					w.Violate("C20/peer-reads-other-registry", "a peer read\n%s\nthe application had declared\n%s", c, r.expect)
				}
				w.Probe("c20-peer-read-checked")
			}
			if n != 1 {
				w.Violate("C20/use-case-read-not-answered", "use case read got %d replies", n)
			}
		}
	}
	w.State(want)
}

func init() {
	Register(&Scenario{Prop: "C20", Name: "sequential-histories", NonTrivial: []string{"c20-peer-read-checked"}, Build: c20Build(false), Settle: c20Settle, Check: c20Check})
	Register(&Scenario{Prop: "C20", Name: "concurrent-entities", NonTrivial: []string{"c20-concurrent-entities"}, Build: c20Build(true), Settle: c20Settle, Check: c20Check})
}
