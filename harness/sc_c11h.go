package harness

import (
	"time"

	"github.com/enbility/spine-go/api"
	"github.com/enbility/spine-go/model"
)

// C11 variant stack-refreshed-data — "a data set obtained from a local ... feature, or delivered
// in a data-change event, never changes afterwards, whatever updates the stack processes later":
// here the later updates are the stack's own. The heartbeat data of a local DeviceDiagnosis
// server feature is rewritten by the heartbeat manager on every tick; an application that keeps
// what DataCopy gave it (or what it was handed in a subscriber's notification path) must see it
// unchanged while the clock runs over several ticks, also when heartbeats are stopped and
// started again.

type c11hSnap struct {
	what  string
	data  any
	canon string
	at    time.Duration
}

type c11hData struct {
	snaps []*c11hSnap
}

func init() {
	Register(&Scenario{
		Prop: "C11", Name: "stack-refreshed-data",
		NonTrivial: []string{"c11h-snapshot-verified"},
		Build: func(w *World) {
			d := &c11hData{}
			w.scData = d
			tau := []time.Duration{4 * time.Second, 8 * time.Second, 60 * time.Second}[w.T.Choose(3, "timeout")]
			L := w.NewNode("L", "d:_i:L", model.NetworkManagementFeatureSetTypeSmart)
			le := L.NewLocalEntity([]uint{1}, model.EntityTypeTypeCEM, tau)
			diag := le.AddFeature(model.FeatureTypeTypeDeviceDiagnosis, model.RoleTypeServer,
				PFunc{model.FunctionTypeDeviceDiagnosisStateData, true, false}, PFunc{model.FunctionTypeDeviceDiagnosisHeartbeatData, true, false})
			L.AddEntity(le)
			hbm := le.E.HeartbeatManager()
			fn := model.FunctionTypeDeviceDiagnosisHeartbeatData
			take := func(what string) {
				v := diag.F.DataCopy(fn)
				if v == nil {
					return
				}
				if hb, ok := v.(*model.DeviceDiagnosisHeartbeatDataType); !ok || hb == nil {
					return
				}
				d.snaps = append(d.snaps, &c11hSnap{what: what, data: v, canon: CanonAny(v), at: w.Now()})
			}
			verify := func() bool {
				for _, s := range d.snaps {
					if c := CanonAny(s.data); c != s.canon {
						w.Violate("C11/snapshot-changed/stack-refreshed-data", "the heartbeat data obtained with DataCopy at %v (%s) was %s and is %s at %v", s.at, s.what, s.canon, c, w.Now())
						return false
					}
					w.Probe("c11h-snapshot-verified")
				}
				return true
			}
			w.Go("app", func() {
				_ = hbm.StartHeartbeat()
				n := 3 + w.T.Choose(6, "rounds")
				for i := 0; i < n; i++ {
					switch w.T.Choose(6, "app-op") {
					case 0:
						hbm.StopHeartbeat()
						take("after-stop")
					case 1:
						_ = hbm.StartHeartbeat()
						take("after-start")
					default:
						take("running")
					}
					// the clock runs over some ticks
					w.Sleep(tau * time.Duration(1+w.T.Choose(5, "quarters")) / 4)
					if !verify() {
						return
					}
				}
				hbm.StopHeartbeat()
				verify()
			})
			var _ api.FeatureLocalInterface = diag.F
		},
	})
}
