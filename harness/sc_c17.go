package harness

import (
	"fmt"
	"reflect"
	"sort"
	"time"

	"github.com/enbility/spine-go/api"
	"github.com/enbility/spine-go/model"
	"github.com/enbility/spine-go/util"

	"verifsim/simrt"
)

// C17 — concurrent use is free of data races and deadlocks.
// The workload combines everything the other scenarios do, concurrently; the deciding signals
// are the race detector under owned schedules (race build) and the modelled-lock deadlock
// detection plus "every task finishes" (both builds).

func init() {
	Register(&Scenario{
		Prop: "C17", Name: "combined-workload", DeadlockDirected: true,
		NonTrivial: []string{"c17-api-calls"},
		Build: func(w *World) {
			pr := BuildProto(w, ProtoOpt{Peers: 2, MinServers: 2, ClientFeats: true,
				ServerTypes: []model.FeatureTypeType{model.FeatureTypeTypeLoadControl, model.FeatureTypeTypeDeviceConfiguration, model.FeatureTypeTypeMeasurement}})
			L := pr.L
			w.scData = pr
			w.CollectEvents()
			w.FaultRate = map[string]int{"conn.drop": 8, "peer.entity_remove": 8, "net.dup": 4}
			a := &actor{w: w, pr: pr, binds: &regScript{w: w, pr: pr, kind: "bind"}, subs: &regScript{w: w, pr: pr, kind: "sub"}}
			// an entity with a heartbeat
			hbEnt := L.NewLocalEntity([]uint{7}, model.EntityTypeTypeCEM, 500*time.Millisecond)
			diag := hbEnt.AddFeature(model.FeatureTypeTypeDeviceDiagnosis, model.RoleTypeServer, PFunc{model.FunctionTypeDeviceDiagnosisStateData, true, false})
			L.AddEntity(hbEnt)
			// approval callbacks on one server feature; the application answers from its callback
			apf := pr.Servers[0]
			_ = apf.F.AddWriteApprovalCallback(func(msg *api.Message) {
				w.Probe("c17-approval-callback")
				if w.T.Bool(1, 4, "stay-silent") {
					return
				}
				for k := w.T.Choose(4, "think"); k > 0; k-- {
					w.Yield("think")
				}
				e := model.ErrorType{}
				if w.T.Bool(1, 3, "deny") {
					e = *model.NewErrorTypeFromString("no")
				}
				apf.F.ApproveOrDenyWrite(msg, e)
			})
			// inbound traffic on two connections (binds, subscriptions, writes, disconnects, entity removal)
			for i, p := range pr.Peers {
				i, p := i, p
				w.Go("script:"+p.Name, func() {
					p.AwaitDiscovery()
					// mostly the first peer owns the binding on the feature with approval callbacks and
					// has writes pending while everything else (teardown of either peer included) goes on
					if (i == 0) == w.T.Bool(3, 4, "hot-binding-first-peer") && len(apf.Funcs) > 0 {
						cf := a.clientFor(p, apf)
						p.Await(p.SendBind(cf, apf.Address(), apf.Type, false, "bind:hot"))
						for k := 1 + w.T.Choose(3, "hot-writes"); k > 0; k-- {
							a.sendWrite(p, apf, cf, apf.Funcs[w.T.Choose(len(apf.Funcs), "fn")], "hot")
							w.Probe("c17-hot-write")
						}
					}
					a.run(p, 4+w.T.Choose(8, "nops"))
				})
			}
			api1 := func(name string, f func()) {
				w.Go(name, func() {
					pr.Peers[0].AwaitDiscovery()
					n := 2 + w.T.Choose(6, "n")
					for i := 0; i < n; i++ {
						f()
						w.Probe("c17-api-calls")
						if w.T.Bool(1, 3, "pause") {
							w.Yield("pause")
						}
					}
				})
			}
			// local data updates
			var dops []*dataOp
			dataTask(w, "data0", pr.Servers, 2+w.T.Choose(5, "ndata"), &dops, nil)
			// local updates that change every stored item in place (no identifier, no selector) while
			// peers read the same functions (the reply is encoded after all locks are released)
			api1("data-in-place", func() {
				s := pr.Servers[w.T.Choose(len(pr.Servers), "in-place-feature")]
				if len(s.Funcs) == 0 {
					return
				}
				fn := s.Funcs[w.T.Choose(len(s.Funcs), "in-place-function")]
				info, ok := fnByName[fn.Fn]
				if !ok || !info.IsList {
					return
				}
				item := w.GenItem(info.ItemType, nil, 1, 2, nil)
				_ = s.F.UpdateData(fn.Fn, GenList(info, []reflect.Value{item}), model.NewFilterTypePartial(), nil)
				w.Probe("c17-in-place-update")
			})
			for _, p := range pr.Peers {
				p := p
				w.Go("reads:"+p.Name, func() {
					p.AwaitDiscovery()
					for i := 2 + w.T.Choose(5, "nreads"); i > 0; i-- {
						if p.Conn.Closed {
							return
						}
						if w.T.Bool(1, 4, "discovery-read") {
							// the node's own tree is read while the application changes descriptions and
							// functions of its features (seed C05-g)
							cmd := model.CmdType{NodeManagementDetailedDiscoveryData: &model.NodeManagementDetailedDiscoveryDataType{}}
							c := p.SendCmd(p.NM().Address(), p.LocalNM(), model.CmdClassifierTypeRead, nil, cmd, "read-discovery")
							if w.T.Bool(1, 2, "await-read") {
								p.Await(c)
							}
							w.Probe("c17-discovery-read")
							continue
						}
						s := pr.Servers[w.T.Choose(len(pr.Servers), "read-feature")]
						if len(s.Funcs) == 0 {
							continue
						}
						fn := s.Funcs[w.T.Choose(len(s.Funcs), "read-function")]
						info, ok := fnByName[fn.Fn]
						if !ok {
							continue
						}
						cmd := model.CmdType{}
						SetCmdData(&cmd, fn.Fn, reflect.New(info.DataType).Interface())
						cf := a.clientFor(p, s)
						c := p.SendCmd(cf.Address(), s.Address(), model.CmdClassifierTypeRead, nil, cmd, "read")
						if w.T.Bool(1, 2, "await-read") {
							p.Await(c)
						}
						w.Probe("c17-peer-read")
					}
				})
			}
			// use case changes on two entities
			api1("usecases", func() {
				e := pr.Ents[w.T.Choose(len(pr.Ents), "uc-entity")]
				nm := c20Names[w.T.Choose(len(c20Names), "name")]
				switch w.T.Choose(4, "uc-op") {
				case 0:
					e.E.AddUseCaseSupport(model.UseCaseActorTypeCEM, nm, "1.0.0", "r", true, []model.UseCaseScenarioSupportType{1})
				case 1:
					e.E.RemoveUseCaseSupport(model.UseCaseActorTypeCEM, nm)
				case 2:
					e.E.SetUseCaseAvailability(model.UseCaseActorTypeCEM, nm, w.T.Bool(1, 2, "av"))
				default:
					_ = e.E.HasUseCaseSupport(model.UseCaseActorTypeCEM, nm)
				}
			})
			// entity addition and removal, feature creation
			var extra *LEnt
			api1("entities", func() {
				// (adding and removing an entity announce it under the device lock order that the
				// registry clean-ups of a leaving peer take the other way round: seed C17-h)
				switch []int{0, 0, 1, 1, 2, 3}[w.T.Choose(6, "ent-op")] {
				case 0:
					if extra == nil {
						extra = c07GenLocalEntity(w, L, []uint{9})
						L.AddEntity(extra)
					}
				case 1:
					if extra != nil {
						L.RemoveEntity(extra)
						extra = nil
					}
				case 2:
					_ = pr.Ents[0].E.GetOrAddFeature(model.FeatureTypeTypeElectricalConnection, model.RoleTypeClient)
				default:
					_ = pr.Ents[0].E.NextFeatureId()
				}
			})
			// client side: subscribe / bind / request towards the peers
			api1("client-requests", func() {
				p := pr.Peers[w.T.Choose(len(pr.Peers), "peer")]
				rd := L.Dev.RemoteDeviceForSki(p.Conn.Ski)
				if rd == nil {
					return
				}
				lf := pr.Clients[0]
				remote := FAddr(p.Addr, []uint{1}, pfMeasurementServer)
				switch w.T.Choose(6, "client-op") {
				case 0:
					_, _ = lf.F.SubscribeToRemote(remote)
				case 1:
					_, _ = lf.F.RemoveRemoteSubscription(remote)
				case 2:
					_, _ = lf.F.BindToRemote(remote)
				case 3:
					_ = lf.F.HasSubscriptionToRemote(remote)
					_ = lf.F.HasBindingToRemote(remote)
				default:
					if rf := rd.FeatureByAddress(remote); rf != nil {
						if c, err := lf.F.RequestRemoteData(model.FunctionTypeMeasurementListData, nil, nil, rf); err == nil && c != nil {
							_ = lf.F.AddResponseCallback(*c, func(api.ResponseMessage) {})
						}
						_ = rf.DataCopy(model.FunctionTypeMeasurementListData)
					}
				}
			})
			// descriptions of features and entities change while peers read the tree
			api1("describe", func() {
				sf := pr.Servers[w.T.Choose(len(pr.Servers), "described-feature")]
				switch w.T.Choose(3, "describe-op") {
				case 0:
					sf.F.SetDescriptionString(fmt.Sprintf("description-%d", w.Uniq()))
				case 1:
					sf.F.SetDescription(nil)
				default:
					sf.Ent.E.SetDescription(util.Ptr(model.DescriptionType(fmt.Sprintf("entity-%d", w.Uniq()))))
				}
				w.Probe("c17-description-changed")
			})
			// heartbeat start / stop
			api1("heartbeat", func() {
				hbm := hbEnt.E.HeartbeatManager()
				switch w.T.Choose(4, "hb-op") {
				case 0:
					diag.F.AddFunctionType(model.FunctionTypeDeviceDiagnosisHeartbeatData, true, false)
				case 1:
					_ = hbm.StartHeartbeat()
				case 2:
					hbm.StopHeartbeat()
				default:
					_ = hbm.IsHeartbeatRunning()
				}
				if w.T.Bool(1, 3, "wait") {
					w.Sleep(300 * time.Millisecond)
				}
			})
			// an application that looks at everything the API offers
			api1("observer", func() {
				switch w.T.Choose(7, "look") {
				case 0:
					for _, e := range L.Dev.Entities() {
						for _, f := range e.Features() {
							_ = f.Address()
							_ = f.Operations()
							_ = f.Functions()
							_ = f.Description()
						}
						_ = e.Information()
					}
					_ = L.Dev.Information()
					_ = L.Dev.DestinationData()
					{
					}
				case 1:
					rds := L.Dev.RemoteDevices() // (map order: sort, the walk below has scheduling points)
					sort.Slice(rds, func(i, j int) bool { return rds[i].Ski() < rds[j].Ski() })
					for _, rd := range rds {
						_ = rd.Address()
						_ = rd.DeviceType()
						_ = rd.FeatureSet()
						_ = rd.DestinationData()
						_ = rd.UseCases()
						_ = rd.Ski()
						for _, e := range rd.Entities() {
							_ = e.Description()
							if a := e.Address(); a != nil && a.Device != nil {
								_ = *a.Device
							}
							for _, f := range e.Features() {
								_ = f.Operations()
								_ = f.Description()
								if a := f.Address(); a != nil && a.Device != nil {
									_ = *a.Device
								}
							}
						}
					}
				case 2:
					for _, p := range pr.Peers {
						if rd := L.Dev.RemoteDeviceForSki(p.Conn.Ski); rd != nil {
							_ = L.Dev.SubscriptionManager().Subscriptions(rd)
							_ = L.Dev.BindingManager().Bindings(rd)
						}
						_ = L.Dev.RemoteDeviceForAddress(model.AddressDeviceType(p.Addr))
					}
				case 3:
					for _, s := range pr.Servers {
						for _, fn := range s.Funcs {
							_ = s.F.DataCopy(fn.Fn)
						}
						_ = L.Dev.SubscriptionManager().SubscriptionsOnFeature(*s.F.Address())
						_ = L.Dev.BindingManager().BindingsOnFeature(*s.F.Address())
					}
				case 4:
					apf.F.SetWriteApprovalTimeout(time.Duration(1+w.T.Choose(3, "to")) * time.Second)
				case 5:
					_ = L.Dev.Information()
					_ = L.Dev.NodeManagement().DataCopy(model.FunctionTypeNodeManagementUseCaseData)
					_ = L.Dev.EntityForType(model.EntityTypeTypeCEM)
				default:
					_ = L.Dev.FeatureByAddress(pr.Servers[0].Address())
					_ = L.Dev.Entity([]model.AddressEntityType{1})
				}
			})
			w.OnCleanup(func() { hbEnt.E.HeartbeatManager().StopHeartbeat() })
			_ = util.Ptr[int]
			_ = simrt.Self
		},
		Check: func(w *World) {
			// every plan task finished (nothing blocked forever): the drain ran everything to completion
			for _, t := range w.planTasks {
				if !t.Done() {
					w.Violate("C17/task-did-not-finish/"+t.Name, "task %s is still %s after the drain: %v", t, t.OpString(), w.S.BlockedReport())
				}
			}
			w.State(fmt.Sprint(len(w.S.Tasks())))
		},
	})
}
