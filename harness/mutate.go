package harness

import (
	"encoding/json"
	"fmt"
	"sort"
	"strings"
)

// net.corrupt: byte-level and structure-level mutation of an otherwise valid datagram.

func init() { corrupt = corruptImpl }

type jpath struct {
	parent any    // map[string]any or []any
	key    string // for maps
	idx    int    // for slices
}

//go:norace
func collectPaths(v any, out *[]jpath) {
	switch x := v.(type) {
	case map[string]any:
		keys := make([]string, 0, len(x))
		for k := range x {
			keys = append(keys, k)
		}
		sort.Strings(keys) // deterministic order
		for _, k := range keys {
			*out = append(*out, jpath{parent: x, key: k})
			collectPaths(x[k], out)
		}
	case []any:
		for i := range x {
			*out = append(*out, jpath{parent: x, idx: i})
			collectPaths(x[i], out)
		}
	}
}

//go:norace
func (p jpath) get() any {
	if m, ok := p.parent.(map[string]any); ok {
		return m[p.key]
	}
	return p.parent.([]any)[p.idx]
}

//go:norace
func (p jpath) set(v any) {
	if m, ok := p.parent.(map[string]any); ok {
		m[p.key] = v
		return
	}
	p.parent.([]any)[p.idx] = v
}

//go:norace
func (p jpath) name() string {
	if _, ok := p.parent.(map[string]any); ok {
		return p.key
	}
	return fmt.Sprintf("[%d]", p.idx)
}

// MutateStructure removes / nulls / empties / retypes / replaces up to three fields.
//
//go:norace
func MutateStructure(w *World, raw []byte) ([]byte, string) {
	var v any
	if err := json.Unmarshal(raw, &v); err != nil {
		return nil, ""
	}
	var how []string
	n := 1 + w.T.Choose(3, "mut-fields")
	for i := 0; i < n; i++ {
		var paths []jpath
		collectPaths(v, &paths)
		if len(paths) == 0 {
			break
		}
		p := paths[w.T.Choose(len(paths), "mut-path")]
		op := w.T.Choose(9, "mut-op")
		switch op {
		case 0: // remove
			if m, ok := p.parent.(map[string]any); ok {
				delete(m, p.key)
			} else {
				p.set(nil)
			}
			how = append(how, "remove:"+p.name())
		case 1:
			p.set(nil)
			how = append(how, "null:"+p.name())
		case 2: // empty of the same kind
			switch p.get().(type) {
			case map[string]any:
				p.set(map[string]any{})
			case []any:
				p.set([]any{})
			case string:
				p.set("")
			default:
				p.set(0)
			}
			how = append(how, "empty:"+p.name())
		case 3: // retype
			switch p.get().(type) {
			case map[string]any:
				p.set([]any{})
			case []any:
				p.set(map[string]any{})
			case string:
				p.set(7)
			case float64:
				p.set("seven")
			default:
				p.set("x")
			}
			how = append(how, "retype:"+p.name())
		case 4: // unknown enum / string
			if _, ok := p.get().(string); ok {
				p.set("notAValidValue")
			} else {
				p.set(map[string]any{"unknownField": 1})
			}
			how = append(how, "unknown:"+p.name())
		case 5: // extreme numbers
			p.set([]any{float64(-1), float64(1 << 40), 1.5e300, float64(0)}[w.T.Choose(4, "mut-num")])
			how = append(how, "number:"+p.name())
		case 6: // duplicate array element / nest
			if a, ok := p.get().([]any); ok && len(a) > 0 {
				p.set(append(append([]any{}, a...), a[0]))
			} else {
				p.set([]any{p.get(), p.get()})
			}
			how = append(how, "dup:"+p.name())
		case 7: // empty object in place
			p.set(map[string]any{})
			how = append(how, "emptyobj:"+p.name())
		case 8: // swap with another node's value
			q := paths[w.T.Choose(len(paths), "mut-swap")]
			a, b := p.get(), q.get()
			// avoid building cycles: copy through JSON
			ab, _ := json.Marshal(a)
			bb, _ := json.Marshal(b)
			var a2, b2 any
			_ = json.Unmarshal(ab, &a2)
			_ = json.Unmarshal(bb, &b2)
			p.set(b2)
			q.set(a2)
			how = append(how, "swap:"+p.name()+"<->"+q.name())
		}
	}
	out, err := json.Marshal(v)
	if err != nil {
		return nil, ""
	}
	return out, strings.Join(how, ",")
}

// MutateBytes flips, truncates, splices or inserts bytes.
//
//go:norace
func MutateBytes(w *World, raw []byte) ([]byte, string) {
	if len(raw) == 0 {
		return []byte("{"), "garbage"
	}
	b := append([]byte(nil), raw...)
	switch w.T.Choose(5, "byte-op") {
	case 0:
		i := w.T.Choose(len(b), "flip-pos")
		b[i] ^= byte(1 << w.T.Choose(8, "flip-bit"))
		return b, fmt.Sprintf("flip@%d", i)
	case 1:
		i := w.T.Choose(len(b), "trunc-pos")
		return b[:i], fmt.Sprintf("truncate@%d", i)
	case 2:
		i := w.T.Choose(len(b), "splice-from")
		j := i + w.T.Choose(len(b)-i, "splice-len")
		k := w.T.Choose(len(b), "splice-at")
		out := append(append(append([]byte{}, b[:k]...), b[i:j]...), b[k:]...)
		return out, fmt.Sprintf("splice[%d:%d]@%d", i, j, k)
	case 3:
		i := w.T.Choose(len(b), "ins-pos")
		g := []string{"null", "{}", "[]", "\"\"", "}", "]", ",", "\x00", "9999999999999999999999"}[w.T.Choose(9, "ins-what")]
		out := append(append(append([]byte{}, b[:i]...), []byte(g)...), b[i:]...)
		return out, fmt.Sprintf("insert@%d", i)
	default:
		return []byte([]string{"", "null", "[]", "{}", "{\"datagram\":null}", "{\"datagram\":{}}", "{\"datagram\":{\"header\":{},\"payload\":{}}}", "42", "\"x\""}[w.T.Choose(9, "whole")]), "replace-whole"
	}
}

//go:norace
func corruptImpl(w *World, raw []byte) ([]byte, string) {
	if w.T.Bool(2, 3, "structure-level") {
		if m, how := MutateStructure(w, raw); m != nil {
			return m, "structure:" + how
		}
	}
	m, how := MutateBytes(w, raw)
	return m, "bytes:" + how
}
