package harness

import (
	"bytes"
	"encoding/json"
	"fmt"
	"sort"
	"strings"
	"sync/atomic"

	shipapi "github.com/enbility/ship-go/api"
	"github.com/enbility/spine-go/model"
	"github.com/enbility/spine-go/spine"

	"verifsim/simrt"
)

// Sent is one datagram written by a node to one of its connections.
type Sent struct {
	Seq     uint64
	Raw     []byte
	D       *model.DatagramType
	Gen     int  // connection generation the writer belonged to
	Stale   bool // written after the connection had been removed (and RemoveRemoteDeviceConnection had returned)
	ConnNam string
	OpSeq   uint64 // sequence number at which the writing task's current operation began
	Task    string
	ArmSeq  uint64 // for timer tasks: when the timer was armed
}

// Delivery is one datagram handed to a node's reader.
type Delivery struct {
	Begin, End uint64 // global sequence numbers around HandleShipPayloadMessage
	Pre, Post  uint64 // sequence numbers around the scenario's before/after observation hooks
	Raw        []byte
	D          *model.DatagramType // nil if not decodable
	Dup        bool
	Corrupted  bool
	Tag        string // free tag set by the sender (scenario bookkeeping)
	Done       bool
	gen        int
}

type qitem struct {
	raw []byte
	tag string
	dup bool
	cor bool
	rd  shipapi.ShipConnectionDataReaderInterface
	gen int
}

// Conn is the inbound half of a connection as seen by a real node, plus the trace of what
// that node wrote to the peer.
type Conn struct {
	W      *World
	Name   string // e.g. "P1>L"
	Ski    string
	Node   *Node
	Queue  []qitem
	Reader shipapi.ShipConnectionDataReaderInterface
	Out    []*Sent
	Del    []*Delivery
	Gen    int
	Closed bool
	// RemovedAt is the sequence number at which RemoveRemoteDeviceConnection returned (0 = connected)
	RemovedAt uint64
	// RemoveBeganAt: the sequence number at which it was called (the removal proper: after the wait
	// for the lifecycle lock and, with QuiesceOwnTraffic, for the connection's own traffic)
	RemoveBeganAt uint64
	OnWrite       func(s *Sent)
	Misbehave     bool // allow reordering within the connection
	Handling      bool
	InFlight      bool // a payload has left the queue and its handling has not finished
	task          *simrt.Task
	// BeforeDeliver lets a scenario observe state right before a message is handled
	BeforeDeliver func(d *Delivery)
	AfterDeliver  func(d *Delivery)
	Paused        bool
	lifecycle     bool
	// handover is a release/acquire pair the race detector sees: ship-go starts the read pump
	// of a connection after SetupRemoteDevice has returned the reader, so what the connecting
	// goroutine did before happens-before everything the reader task does for that connection
	handover atomic.Int32
}

type connWriter struct {
	c   *Conn
	gen int
}

//go:norace
func (cw *connWriter) WriteShipMessageWithPayload(msg []byte) {
	c := cw.c
	w := c.W
	cp := append([]byte(nil), msg...)
	s := &Sent{Raw: cp, Gen: cw.gen, ConnNam: c.Name}
	var dg model.Datagram
	if err := json.Unmarshal(cp, &dg); err == nil {
		s.D = &dg.Datagram
	}
	s.Stale = cw.gen != c.Gen || (c.Closed && c.RemovedAt != 0)
	if t := simrt.Self(); t != nil {
		s.OpSeq, s.Task = t.OpSeq, t.String()
		s.ArmSeq = w.ArmSeq[t]
	}
	s.Seq = w.Logf("send %s gen=%d %s", c.Name, cw.gen, DescribeDatagram(s.D, cp))
	c.Out = append(c.Out, s)
	if c.OnWrite != nil && !s.Stale {
		c.OnWrite(s)
	}
}

// Push enqueues a raw payload for delivery to the node.
//
//go:norace
func (c *Conn) Push(raw []byte, tag string) {
	if c.Closed {
		return
	}
	c.Queue = append(c.Queue, qitem{raw: raw, tag: tag})
}

//go:norace
func (c *Conn) pending() bool { return len(c.Queue) > 0 && !c.Closed && !c.Paused }

// startReader starts the reader task: it plays ship-go's read pump, handing the queued
// payloads to the stack one by one, synchronously.
//
//go:norace
func (c *Conn) startReader() {
	w := c.W
	c.task = w.GoBackground("reader:"+c.Name, "reader", func() {
		for {
			simrt.WaitUntil("recv:"+c.Name, c.pending)
			it := c.Queue[0]
			c.Queue = c.Queue[1:]
			c.InFlight = true
			// the payload is now in flight inside the read pump of this connection generation:
			// it is handed to the reader that belongs to it even if the connection is removed
			// (and re-established) before the stack gets to handle it
			c.handover.Load()
			it.rd, it.gen = c.Reader, c.Gen
			if w.FaultsOn && !it.dup {
				if w.faultHit("net.drop") {
					w.Fault("net.drop")
					w.Logf("fault net.drop %s %s", c.Name, it.tag)
					c.InFlight = false
					continue
				}
				if w.faultHit("net.dup") {
					w.Fault("net.dup")
					d := it
					d.dup = true
					pos := w.T.Choose(len(c.Queue)+1, "dup-pos")
					c.Queue = append(c.Queue[:pos:pos], append([]qitem{d}, c.Queue[pos:]...)...)
					w.Logf("fault net.dup %s %s at +%d", c.Name, it.tag, pos)
				}
				if c.Misbehave && len(c.Queue) > 0 && w.faultHit("net.reorder") {
					w.Fault("net.reorder")
					pos := 1 + w.T.Choose(len(c.Queue), "reorder-pos")
					c.Queue = append(c.Queue[:pos:pos], append([]qitem{it}, c.Queue[pos:]...)...)
					w.Logf("fault net.reorder %s %s to +%d", c.Name, it.tag, pos)
					c.InFlight = false
					continue
				}
				if w.faultHit("net.corrupt") {
					if m, how := corrupt(w, it.raw); m != nil {
						w.Fault("net.corrupt")
						it.raw, it.cor = m, true
						w.Logf("fault net.corrupt %s %s %s", c.Name, it.tag, how)
					}
				}
			}
			c.deliver(it)
			c.InFlight = false
		}
	})
}

//go:norace
func (c *Conn) deliver(it qitem) {
	w := c.W
	d := &Delivery{Raw: it.raw, Tag: it.tag, Dup: it.dup, Corrupted: it.cor, gen: it.gen}
	var dg model.Datagram
	if err := json.Unmarshal(it.raw, &dg); err == nil {
		d.D = &dg.Datagram
	}
	c.Del = append(c.Del, d)
	d.Pre = w.Stamp()
	if t := simrt.Self(); t != nil {
		// the payload left the queue: from here on it is an operation in flight
		t.OpSeq = d.Pre
	}
	if c.BeforeDeliver != nil {
		c.BeforeDeliver(d)
	}
	d.Begin = w.Logf("deliver %s %s %s", c.Name, it.tag, DescribeDatagram(d.D, it.raw))
	c.Handling = true
	rd := it.rd
	if rd == nil {
		rd = c.Reader
	}
	rd.HandleShipPayloadMessage(it.raw)
	c.Handling = false
	d.End = w.Logf("handled %s %s", c.Name, it.tag)
	d.Done = true
	if c.AfterDeliver != nil {
		c.AfterDeliver(d)
	}
	d.Post = w.Stamp()
}

// Node is a real spine.DeviceLocal.
type Node struct {
	W     *World
	Name  string
	Addr  string
	Dev   *spine.DeviceLocal
	Conns map[string]*Conn // by peer name
	// QuiesceOwnTraffic: a connection is removed only when no message of that very connection is
	// being handled (scenarios with exact registry oracles: the properties quantify over removals
	// "while messages of other peers are being processed"; what a request that overlaps the
	// removal of its own connection leaves behind is undecided, see DESIGN 10.4)
	QuiesceOwnTraffic bool
	Ents              []*LEnt // the harness's record of the local tree (entity 0 first)
}

//go:norace
func (n *Node) localEnts() []*LEnt { return n.Ents }

// AddEntity announces a prepared local entity through the stack's API and records it.
//
//go:norace
func (n *Node) AddEntity(e *LEnt) {
	n.Ents = append(n.Ents, e)
	n.Dev.AddEntity(e.E)
}

//go:norace
func (n *Node) RemoveEntity(e *LEnt) {
	var keep []*LEnt
	for _, x := range n.Ents {
		if x != e {
			keep = append(keep, x)
		}
	}
	n.Ents = keep
	n.Dev.RemoveEntity(e.E)
}

//go:norace
func (w *World) NewNode(name, addr string, featureSet model.NetworkManagementFeatureSetType) *Node {
	dev := spine.NewDeviceLocal("brand-"+name, "model-"+name, "serial-"+name, "code-"+name, addr,
		model.DeviceTypeTypeEnergyManagementSystem, featureSet)
	n := &Node{W: w, Name: name, Addr: addr, Dev: dev, Conns: map[string]*Conn{}}
	e0 := &LEnt{Node: n, E: dev.Entities()[0], Addr: []uint{0}, Type: model.EntityTypeTypeDeviceInformation}
	nmFuncs := []PFunc{
		{model.FunctionTypeNodeManagementDetailedDiscoveryData, true, false},
		{model.FunctionTypeNodeManagementUseCaseData, true, false},
		{model.FunctionTypeNodeManagementSubscriptionData, true, false},
		{model.FunctionTypeNodeManagementSubscriptionRequestCall, false, false},
		{model.FunctionTypeNodeManagementSubscriptionDeleteCall, false, false},
		{model.FunctionTypeNodeManagementBindingData, true, false},
		{model.FunctionTypeNodeManagementBindingRequestCall, false, false},
		{model.FunctionTypeNodeManagementBindingDeleteCall, false, false},
	}
	if featureSet != "" && featureSet != model.NetworkManagementFeatureSetTypeSimple {
		nmFuncs = append(nmFuncs, PFunc{model.FunctionTypeNodeManagementDestinationListData, true, false})
	}
	e0.Feats = append(e0.Feats, &LFeat{Ent: e0, F: dev.NodeManagement(), ID: 0, Type: model.FeatureTypeTypeNodeManagement, Role: model.RoleTypeSpecial, Funcs: nmFuncs})
	if dc := dev.Entities()[0].FeatureOfTypeAndRole(model.FeatureTypeTypeDeviceClassification, model.RoleTypeServer); dc != nil {
		e0.Feats = append(e0.Feats, &LFeat{Ent: e0, F: dc, ID: uint(*dc.Address().Feature), Type: model.FeatureTypeTypeDeviceClassification, Role: model.RoleTypeServer,
			Funcs: []PFunc{{model.FunctionTypeDeviceClassificationManufacturerData, true, false}}})
	}
	n.Ents = []*LEnt{e0}
	return n
}

// Connect registers peer (by name / ski) with the node and returns the inbound connection.
// The stack immediately writes its detailed-discovery read to the new writer, so the
// connection object is handed to bind (if not nil) before SetupRemoteDevice is called.
//
//go:norace
func (n *Node) Connect(peerName string, onWrite func(s *Sent), bind func(c *Conn)) *Conn {
	ski := "ski-" + peerName + "-at-" + n.Name
	c := n.Conns[peerName]
	if c != nil {
		c.lockLifecycle()
		defer c.unlockLifecycle()
	}
	if c == nil {
		c = &Conn{W: n.W, Name: peerName + ">" + n.Name, Ski: ski, Node: n}
		n.Conns[peerName] = c
		c.startReader()
	} else {
		c.Gen++
		c.Closed = false
		c.RemovedAt = 0
		c.Queue = nil
	}
	c.OnWrite = onWrite
	if bind != nil {
		bind(c)
	}
	n.W.Logf("connect %s gen=%d", c.Name, c.Gen)
	// ship-go cannot deliver anything before SetupRemoteDevice has returned the reader
	c.Paused = true
	c.Reader = n.Dev.SetupRemoteDevice(ski, &connWriter{c: c, gen: c.Gen})
	c.handover.Store(int32(c.Gen + 1))
	c.Paused = false
	return c
}

// Disconnect removes the connection through the stack's API. Connection lifecycle operations
// of one peer are serialised (a new connection of a SKI is not set up while the removal of
// the previous one is still in progress). Returns false if the connection was not up.
//
//go:norace
func (n *Node) Disconnect(peerName string) bool { return n.DisconnectThen(peerName, nil) }

// DisconnectThen runs then (if not nil) after the removal returned and before any other
// lifecycle operation of this peer can begin.
//
//go:norace
func (n *Node) DisconnectThen(peerName string, then func()) bool {
	c := n.Conns[peerName]
	if c == nil {
		return false
	}
	c.lockLifecycle()
	defer c.unlockLifecycle()
	if c.Closed {
		return false
	}
	w := n.W
	c.Closed = true
	c.Queue = nil
	if n.QuiesceOwnTraffic && simrt.Self() != nil && c.InFlight {
		w.Probe("removal-waited-for-own-traffic")
		simrt.WaitUntil("own-traffic-over:"+c.Name, func() bool { return !c.InFlight })
	}
	c.RemoveBeganAt = w.Logf("disconnect %s begin", c.Name)
	if t := simrt.Self(); t != nil {
		t.OpSeq = c.RemoveBeganAt
	}
	n.Dev.RemoveRemoteDeviceConnection(c.Ski)
	c.RemovedAt = w.Logf("disconnect %s returned", c.Name)
	if then != nil {
		then()
	}
	return true
}

//go:norace
func (c *Conn) lockLifecycle() {
	if simrt.Self() != nil {
		simrt.WaitUntil("lifecycle:"+c.Name, func() bool { return !c.lifecycle })
	}
	c.lifecycle = true
}

//go:norace
func (c *Conn) unlockLifecycle() { c.lifecycle = false }

// ---------------------------------------------------------------------------------------
// canonical description of datagrams (order-insensitive arrays sorted)

//go:norace
func DescribeDatagram(d *model.DatagramType, raw []byte) string {
	if d == nil {
		h := fmt.Sprintf("%x", raw)
		if len(h) > 24 {
			h = h[:24]
		}
		return fmt.Sprintf("undecodable len=%d %s", len(raw), h)
	}
	var b strings.Builder
	h := d.Header
	cl := "?"
	if h.CmdClassifier != nil {
		cl = string(*h.CmdClassifier)
	}
	fmt.Fprintf(&b, "%s %s->%s", cl, AddrStr(h.AddressSource), AddrStr(h.AddressDestination))
	if h.MsgCounter != nil {
		fmt.Fprintf(&b, " ctr=%d", *h.MsgCounter)
	}
	if h.MsgCounterReference != nil {
		fmt.Fprintf(&b, " ref=%d", *h.MsgCounterReference)
	}
	if h.AckRequest != nil {
		fmt.Fprintf(&b, " ack=%v", *h.AckRequest)
	}
	for _, c := range d.Payload.Cmd {
		cc := c
		fmt.Fprintf(&b, " cmd=%s", cc.DataName())
		if c.ResultData != nil && c.ResultData.ErrorNumber != nil {
			fmt.Fprintf(&b, " err=%d", *c.ResultData.ErrorNumber)
			if c.ResultData.Description != nil && *c.ResultData.ErrorNumber != 0 {
				fmt.Fprintf(&b, " (%s)", string(*c.ResultData.Description))
			}
		}
		if len(c.Filter) > 0 {
			fmt.Fprintf(&b, " filters=%d", len(c.Filter))
		}
	}
	fmt.Fprintf(&b, " h=%s", shortHash(CanonJSON(raw)))
	return b.String()
}

//go:norace
func AddrStr(a *model.FeatureAddressType) string {
	if a == nil {
		return "<nil>"
	}
	dev := "-"
	if a.Device != nil {
		dev = string(*a.Device)
	}
	var ent []string
	for _, e := range a.Entity {
		ent = append(ent, fmt.Sprint(uint(e)))
	}
	f := "-"
	if a.Feature != nil {
		f = fmt.Sprint(uint(*a.Feature))
	}
	return fmt.Sprintf("%s/[%s]/%s", dev, strings.Join(ent, ","), f)
}

// CanonJSON re-encodes JSON with object keys sorted and the arrays whose order the stack
// derives from Go map iteration (supportedFunction) sorted.
//
//go:norace
func CanonJSON(raw []byte) string {
	var v any
	dec := json.NewDecoder(bytes.NewReader(raw))
	dec.UseNumber()
	if err := dec.Decode(&v); err != nil {
		return string(raw)
	}
	v = canonVal(v, "")
	out, _ := json.Marshal(v)
	return string(out)
}

//go:norace
func canonVal(v any, key string) any {
	switch x := v.(type) {
	case map[string]any:
		for k, e := range x {
			x[k] = canonVal(e, k)
		}
		return x
	case []any:
		for i, e := range x {
			x[i] = canonVal(e, "")
		}
		if key == "supportedFunction" {
			sort.Slice(x, func(i, j int) bool {
				a, _ := json.Marshal(x[i])
				b, _ := json.Marshal(x[j])
				return string(a) < string(b)
			})
		}
		return x
	}
	return v
}

// CanonAny marshals a Go value and canonicalises it.
//
//go:norace
func CanonAny(v any) string {
	b, err := json.Marshal(v)
	if err != nil {
		return "marshal-error:" + err.Error()
	}
	return CanonJSON(b)
}

func shortHash(s string) string {
	h := fnv64(s)
	return fmt.Sprintf("%012x", h&0xffffffffffff)
}

func fnv64(s string) uint64 {
	h := uint64(14695981039346656037)
	for i := 0; i < len(s); i++ {
		h ^= uint64(s[i])
		h *= 1099511628211
	}
	return h
}
