package harness

import (
	"fmt"
	"reflect"
	"time"

	"verifsim/simrt"

	"github.com/enbility/spine-go/api"
	"github.com/enbility/spine-go/model"
	"github.com/enbility/spine-go/util"
)

// C02 — replicated function data follows the restricted-exchange update rules (DESIGN A.1).

type genUpd struct {
	data         any
	fp           *model.FilterType
	fd           *model.FilterType
	abs          absUpdate
	shape        string
	partialFirst bool // both filters present: the partial one comes first in the array
}

// idsFor builds key values for an item: first key from {0..3, 11}, second from {0, 1, 11}, third
// from {0, 1}, others 0 (two-digit values: identifiers whose decimal digits run into each other
// when written side by side, (1,11) and (11,1), are different identifiers).
//
//go:norace
func idsFor(w *World, info FnInfo) []uint {
	n := len(shapeOf(info.ItemType).Keys)
	ids := make([]uint, n)
	ids[0] = []uint{0, 1, 2, 3, 11}[w.T.Choose(5, "id0")]
	if n > 1 {
		ids[1] = []uint{0, 1, 11}[w.T.Choose(3, "id1")]
	}
	if n > 2 {
		ids[2] = uint(w.T.Choose(2, "id2"))
	}
	return ids
}

//go:norace
func lessIDs(a, b []uint) bool {
	for i := range a {
		if a[i] != b[i] {
			return a[i] < b[i]
		}
	}
	return false
}

// genItems builds n items with distinct identifiers in ascending order.
//
//go:norace
func genItems(w *World, info FnInfo, n, fillNum, fillDen int, wc func() *bool) []reflect.Value {
	var all [][]uint
	for k := 0; k < n; k++ {
		ids := idsFor(w, info)
		dup := false
		for _, o := range all {
			if eqUints(o, ids) {
				dup = true
			}
		}
		if !dup {
			all = append(all, ids)
		}
	}
	for i := 1; i < len(all); i++ {
		for j := i; j > 0 && lessIDs(all[j], all[j-1]); j-- {
			all[j], all[j-1] = all[j-1], all[j]
		}
	}
	var items []reflect.Value
	for _, ids := range all {
		var c *bool
		if wc != nil {
			c = wc()
		}
		items = append(items, w.GenItem(info.ItemType, ids, fillNum, fillDen, c))
	}
	return items
}

// nonKeyElement picks a non-key field the elements type can name.
//
//go:norace
func nonKeyElement(w *World, info FnInfo) any {
	var cands []string
	for _, f := range shapeOf(info.ItemType).Fields {
		if f.Class == fcKey || f.Class == fcWriteCheck {
			continue
		}
		if GenElements(info, []string{f.Name}) != nil {
			cands = append(cands, f.Name)
		}
	}
	if len(cands) == 0 {
		return nil
	}
	return GenElements(info, []string{cands[w.T.Choose(len(cands), "element")]})
}

// genUpdate generates one update of a random shape against the current abstract list.
//
//go:norace
func genUpdate(w *World, info FnInfo, cur absList, wc func() *bool) *genUpd {
	u := &genUpd{}
	selOK := SelectorCoversKeys(info)
	// a selector naming the identifier of an existing item (mostly) or of none
	selector := func() any {
		ids := idsFor(w, info)
		sel := GenSelector(info, ids)
		if sel != nil && w.T.Bool(1, 5, "selector-names-a-list-valued-element") {
			// a selector member whose namesake in the items is a list: such a selector matches
			// nothing (and must not upset anything)
			sv := reflect.ValueOf(sel).Elem()
			for i := 0; i < sv.NumField(); i++ {
				f := sv.Field(i)
				itf, ok := info.ItemType.FieldByName(sv.Type().Field(i).Name)
				if ok && itf.Type.Kind() == reflect.Slice && f.Kind() == reflect.Ptr && f.IsNil() && scalarKind(f.Type().Elem().Kind()) {
					p := reflect.New(f.Type().Elem())
					w.setScalarValue(p.Elem())
					f.Set(p)
					w.Probe("c02-selector-names-list-valued-element")
				}
			}
		}
		return sel
	}
	// a delete selector may name only some parts of a composite identifier: it then matches every
	// item that agrees in these parts (seed C02-h: only the first match was removed). Not used for
	// partial filters, where "the" selected item must be unambiguous.
	delSelector := func() any {
		sel := selector()
		if sel == nil || len(shapeOf(info.ItemType).Keys) < 2 || !w.T.Bool(1, 2, "selector-names-part-of-the-identifier") {
			return sel
		}
		sv := reflect.ValueOf(sel).Elem()
		var set []int
		for i := 0; i < sv.NumField(); i++ {
			if f := sv.Field(i); f.Kind() == reflect.Ptr && !f.IsNil() {
				set = append(set, i)
			}
		}
		if len(set) < 2 {
			return sel
		}
		keep := set[w.T.Choose(len(set), "selector-part-kept")]
		for _, i := range set {
			if i != keep {
				sv.Field(i).Set(reflect.Zero(sv.Field(i).Type()))
			}
		}
		w.Probe("c02-delete-selector-names-part-of-identifier")
		return sel
	}
	// what the filters say is taken from the generated selector and elements objects themselves,
	// never read back through the implementation's own filter reader
	var parSel, delSel, delEl any
	mkPar := func(sel, el any) *model.FilterType {
		parSel = sel
		return MakeFilter(info, "partial", sel, el)
	}
	mkDel := func(sel, el any) *model.FilterType {
		delSel, delEl = sel, el
		return MakeFilter(info, "delete", sel, el)
	}
	emptyData := reflect.New(info.DataType).Interface()
	shape := w.T.Choose(12, "update-shape")
	switch shape {
	case 10:
		if !selOK {
			return nil
		}
		// a delete filter and a partial filter that each name an item by selector
		u.shape = "delete-selector+partial-selector"
		u.data = GenList(info, []reflect.Value{w.GenItem(info.ItemType, nil, 1, 2, nil)})
		u.fd = mkDel(delSelector(), nil)
		u.fp = mkPar(selector(), nil)
	case 11:
		el := nonKeyElement(w, info)
		if el == nil || !selOK {
			return nil
		}
		u.shape = "delete-elements+partial-selector"
		u.data = GenList(info, []reflect.Value{w.GenItem(info.ItemType, nil, 1, 2, nil)})
		u.fd = mkDel(nil, el)
		u.fp = mkPar(selector(), nil)
	case 9:
		// no filter, one item without identifier: stored as it is when the update persists,
		// "copied to all items" of the result when it does not
		u.shape = "full-without-identifiers"
		u.data = GenList(info, []reflect.Value{w.GenItem(info.ItemType, nil, 1, 2, nil)})
	case 0:
		u.shape = "full"
		u.data = GenList(info, genItems(w, info, 1+w.T.Choose(4, "n"), 3, 4, wc))
		if w.T.Bool(1, 8, "empty-full") {
			u.data = emptyData
		}
	case 1, 2:
		u.shape = "partial-with-identifiers"
		u.data = GenList(info, genItems(w, info, 1+w.T.Choose(3, "n"), 1, 2, wc))
		u.fp = mkPar(nil, nil)
	case 3:
		u.shape = "partial-without-identifiers"
		u.data = GenList(info, []reflect.Value{w.GenItem(info.ItemType, nil, 1, 2, nil)})
		u.fp = mkPar(nil, nil)
	case 4:
		if !selOK {
			return nil
		}
		u.shape = "partial-selector"
		u.data = GenList(info, []reflect.Value{w.GenItem(info.ItemType, nil, 1, 2, nil)})
		u.fp = mkPar(selector(), nil)
	case 5:
		if !selOK {
			return nil
		}
		u.shape = "delete-selector"
		u.data = emptyData
		u.fd = mkDel(delSelector(), nil)
	case 6:
		el := nonKeyElement(w, info)
		if el == nil {
			return nil
		}
		u.shape = "delete-elements"
		u.data = emptyData
		u.fd = mkDel(nil, el)
	case 7:
		el := nonKeyElement(w, info)
		if el == nil || !selOK {
			return nil
		}
		u.shape = "delete-selector-elements"
		u.data = emptyData
		u.fd = mkDel(delSelector(), el)
	default:
		if !selOK {
			return nil
		}
		u.shape = "delete-selector+partial-with-identifiers"
		u.data = GenList(info, genItems(w, info, 1+w.T.Choose(2, "n"), 1, 2, wc))
		u.fd = mkDel(delSelector(), nil)
		u.fp = mkPar(nil, nil)
	}
	if u.fp != nil && u.fd != nil {
		u.partialFirst = w.T.Bool(1, 2, "partial-filter-listed-first")
	}
	u.abs = absUpdate{data: absOf(info, u.data), desc: u.shape}
	if u.fp != nil {
		u.abs.hasPartial = true
		u.abs.partialSel = absSelectorOf(info, parSel)
	}
	if u.fd != nil {
		u.abs.hasDelete = true
		u.abs.deleteSel = absSelectorOf(info, delSel)
		u.abs.deleteElems = absElementsOf(info, delEl)
	}
	return u
}

// cmdFor builds the command carrying the update.
//
//go:norace
func (u *genUpd) cmdFor(info FnInfo) model.CmdType {
	cmd := model.CmdType{}
	SetCmdData(&cmd, info.Fn, u.data)
	if u.fp != nil || u.fd != nil {
		cmd.Function = util.Ptr(info.Fn)
		if u.fd != nil {
			cmd.Filter = append(cmd.Filter, *u.fd)
		}
		if u.fp != nil {
			cmd.Filter = append(cmd.Filter, *u.fp)
		}
		if u.partialFirst && len(cmd.Filter) == 2 {
			// (the order of the two filters in the array means nothing)
			cmd.Filter[0], cmd.Filter[1] = cmd.Filter[1], cmd.Filter[0]
		}
	}
	return cmd
}

type c02Data struct {
	info FnInfo
	path string
}

func init() {
	Register(&Scenario{
		Prop: "C02", Name: "update-fold",
		NonTrivial: []string{"c02-update-compared"},
		Build: func(w *World) {
			lf := getListFunctions()
			info := lf[w.T.Choose(len(lf), "function")]
			ft := featureTypeOf(info.Fn)
			path := []string{"local-api", "remote-datagram", "remote-api"}[w.T.Choose(3, "path")]
			w.scData = &c02Data{info: info, path: path}
			w.Probe("c02-fn-" + string(info.Fn))
			w.Probe("c02-path-" + path)
			L := w.NewNode("L", "d:_i:L", model.NetworkManagementFeatureSetTypeSmart)
			le := L.NewLocalEntity([]uint{1}, model.EntityTypeTypeCEM, 4*time.Second)
			srv := le.AddFeature(ft, model.RoleTypeServer, PFunc{info.Fn, true, true})
			cli := le.AddFeature(ft, model.RoleTypeClient)
			L.AddEntity(le)
			p := w.NewPeer("P1", "d:_i:P1", L)
			pe := p.AddEntity([]uint{1}, model.EntityTypeTypeEVSE, "")
			pSrv := pe.AddFeature(1, ft, model.RoleTypeServer, PFunc{info.Fn, true, false})
			p.Connect()
			w.EnableFaults("net.dup")
			w.Go("history", func() {
				p.AwaitDiscovery()
				// the remote feature object is replaced whenever discovery data is processed again
				// (e.g. a duplicated discovery reply): look it up when the connection is idle
				idle := func() {
					simrt.WaitUntil("conn-idle", func() bool { return len(p.Conn.Queue) == 0 && !p.Conn.Handling })
				}
				lookup := func() api.FeatureRemoteInterface {
					idle()
					if rd := L.Dev.RemoteDeviceForSki(p.Conn.Ski); rd != nil {
						return rd.FeatureByAddress(pSrv.Address())
					}
					return nil
				}
				rf := lookup()
				if rf == nil {
					w.Violate("C02/remote-feature-missing", "the announced feature is not in the remote view")
					return
				}
				var ref absList
				n := 3 + w.T.Choose(10, "nupdates")
				for i := 0; i < n; i++ {
					u := genUpdate(w, info, ref, nil)
					if u == nil {
						continue
					}
					w.Logf("update %d %s on %s via %s", i, u.shape, info.Fn, path)
					var got any
					switch path {
					case "local-api":
						if u.fp == nil && u.fd == nil && w.T.Bool(1, 2, "set-data") {
							srv.F.SetData(info.Fn, u.data)
						} else if e := srv.F.UpdateData(info.Fn, u.data, u.fp, u.fd); e != nil {
							w.Violate("C02/update-rejected/"+u.shape, "local UpdateData(%s) failed: %s", u.shape, e.String())
						}
						got = srv.F.DataCopy(info.Fn)
					case "remote-api":
						if _, e := rf.UpdateData(true, info.Fn, u.data, u.fp, u.fd); e != nil {
							w.Violate("C02/update-rejected/"+u.shape, "FeatureRemote.UpdateData(%s) failed: %s", u.shape, e.String())
						}
						got = rf.DataCopy(info.Fn)
					default:
						cl := model2Classifier(w)
						h := p.Header(pSrv.Address(), cli.Address(), cl, nil)
						if cl == model.CmdClassifierTypeReply {
							h.MsgCounterReference = util.Ptr(model.MsgCounterType(99))
						}
						ctr := p.Send(model.DatagramType{Header: h, Payload: model.PayloadType{Cmd: []model.CmdType{u.cmdFor(info)}}}, u.shape)
						p.Await(ctr)
						// a duplicated delivery must change nothing: wait for it too
						idle()
						for _, s := range p.Responses(ctr) {
							if isRes, e := IsResult(s); isRes && e != 0 {
								w.Violate("C02/update-rejected/"+u.shape, "%s %s was answered with an error result", cl, u.shape)
							}
						}
						got = rf.DataCopy(info.Fn)
					}
					ref = absFold(info, ref, u.abs)
					w.Probe("c02-update-compared")
					w.Probe("c02-shape-" + u.shape)
					gotAbs := absOf(info, got)
					if gotAbs.canon() != ref.canon() {
						w.Violate("C02/data-differs-from-fold/"+u.shape, "after update %d (%s) of %s via %s the API returns\n%s\nthe fold of the update rules gives\n%s", i, u.shape, info.Fn, path, gotAbs.canon(), ref.canon())
						return
					}
					if msg := checkListInvariants(info, got); msg != "" {
						w.Violate("C02/list-invariant/"+u.shape, "after %s of %s: %s", u.shape, info.Fn, msg)
						return
					}
					// applying the same update a second time changes nothing
					if path != "remote-datagram" && w.T.Bool(1, 3, "apply-again") {
						var again any
						if path == "local-api" {
							_ = srv.F.UpdateData(info.Fn, u.data, u.fp, u.fd)
							again = srv.F.DataCopy(info.Fn)
						} else {
							_, _ = rf.UpdateData(true, info.Fn, u.data, u.fp, u.fd)
							again = rf.DataCopy(info.Fn)
						}
						if a := absOf(info, again); a.canon() != ref.canon() {
							w.Violate("C02/not-idempotent/"+u.shape, "applying %s of %s a second time changed the data to\n%s\nfrom\n%s", u.shape, info.Fn, a.canon(), ref.canon())
							return
						}
						w.Probe("c02-idempotence-checked")
					}
				}
				w.State(ref.canon())
			})
		},
		Check: func(w *World) {},
	})
}

//go:norace
func model2Classifier(w *World) model.CmdClassifierType {
	if w.T.Bool(1, 2, "reply") {
		return model.CmdClassifierTypeReply
	}
	return model.CmdClassifierTypeNotify
}

var _ = fmt.Sprint
