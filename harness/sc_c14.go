package harness

import (
	"fmt"

	"github.com/enbility/spine-go/api"
	"github.com/enbility/spine-go/model"
	"github.com/enbility/spine-go/util"

	"verifsim/simrt"
)

// C14 — response and result callbacks fire exactly once for the right message.

type c14Reg struct {
	feat    *LFeat
	ctr     uint64 // 0 = result callback
	cbid    int
	invoke  uint64
	ret     uint64
	refused bool
	dupOf   *c14Reg
	calls   []c14Call
	reqID   int // which request the registration belongs to
}

type c14Call struct {
	seq   uint64
	ref   uint64
	local api.FeatureLocalInterface
	rf    string
	canon string
}

type c14Arrival struct {
	peer     *Peer
	ctr      uint64 // peer's counter of the datagram
	feat     *LFeat
	ref      uint64 // 0 = no reference
	isResult bool
	accepted bool
	src      string
	canon    string
}

type c14Data struct {
	pr       *Proto
	regs     []*c14Reg
	arrivals []*c14Arrival
	reqs     map[*LFeat][]uint64 // counters of requests sent per local feature
	// resultsMostly: half of the answers are matching results; shift: requests sent to the second
	// peer first, so that the counters of the two connections differ
	resultsMostly bool
	shift         int
}

// three distinct function literals: the stack identifies callbacks by code pointer
//
//go:norace
func (d *c14Data) mkCallback(w *World, r *c14Reg) func(api.ResponseMessage) {
	rec := func(msg api.ResponseMessage) {
		c := c14Call{ref: uint64(msg.MsgCounterReference), local: msg.FeatureLocal, canon: CanonAny(msg.Data)}
		if msg.FeatureRemote != nil {
			c.rf = AddrStr(msg.FeatureRemote.Address())
		}
		c.seq = w.Logf("callback %d of %s (registered for ctr %d) invoked with ref=%d from %s", r.cbid, AddrStr(r.feat.Address()), r.ctr, c.ref, c.rf)
		r.calls = append(r.calls, c)
	}
	switch r.cbid % 3 {
	case 0:
		return func(msg api.ResponseMessage) { rec(msg) }
	case 1:
		return func(msg api.ResponseMessage) { w.Probe("c14-callback-b"); rec(msg) }
	default:
		return func(msg api.ResponseMessage) { w.Probe("c14-callback-c"); rec(msg) }
	}
}

func init() {
	Register(&Scenario{
		Prop: "C14", Name: "response-callbacks", Weight: 3,
		NonTrivial: []string{"c14-callback-fired-once"},
		Build: func(w *World) {
			pr := BuildProto(w, ProtoOpt{Peers: 1 + w.T.Choose(2, "peers"), MinServers: 1, ClientFeats: true})
			d := &c14Data{pr: pr, reqs: map[*LFeat][]uint64{}}
			w.scData = d
			w.EnableFaults("net.dup")
			for _, p := range pr.Peers {
				p.AutoAck = false
			}
			// a peer that is asked nothing is connected as well and goes away at some point (fault
			// conn.drop): the callbacks waiting for the others' answers are none of its business
			if w.T.Bool(1, 2, "bystander") {
				px := w.NewPeer("PX", "d:_i:PX", pr.L)
				stdPeerTree(px, false)
				px.Connect()
				w.EnableFaults("conn.drop")
				w.Go("bystander-leaves", func() {
					px.AwaitDiscovery()
					for k := w.T.Choose(40, "bystander-delay"); k > 0; k-- {
						w.Yield("bystander-delay")
					}
					w.Logf("fault conn.drop PX (bystander)")
					if w.FaultsOn && pr.L.Disconnect("PX") {
						w.Fault("conn.drop")
						w.Probe("c14-bystander-removed")
					}
				})
			}
			// the local client features (Measurement client, LoadControl client on each entity)
			var locals []*LFeat
			for _, c := range pr.Clients {
				if c.Type == model.FeatureTypeTypeMeasurement {
					locals = append(locals, c)
				}
			}
			if len(locals) == 1 {
				locals = append(locals, pr.Clients[1])
			}
			// a third of the runs: every local feature has 3-5 result callbacks, most answers are
			// results, and the counters of the two connections are shifted against each other - results
			// referencing different counters are then dispatched concurrently by two readers (seed C14-f)
			if w.T.Bool(1, 3, "many-result-callbacks") {
				d.resultsMostly = true
				w.Probe("c14-many-result-callbacks")
				for _, lf := range locals {
					for k := 3 + w.T.Choose(3, "n-result-callbacks"); k > 0; k-- {
						r := &c14Reg{feat: lf, cbid: w.Uniq()}
						d.regs = append(d.regs, r)
						r.invoke = w.Logf("invoke AddResultCallback %s cb%d", AddrStr(lf.Address()), r.cbid)
						lf.F.AddResultCallback(d.mkCallback(w, r))
						r.ret = w.Logf("return AddResultCallback")
					}
				}
				if len(pr.Peers) > 1 {
					d.shift = 1 + w.T.Choose(6, "counter-shift")
				}
			}
			// app tasks: send requests, register callbacks (some concurrently with the arrival)
			nt := 1 + w.T.Choose(2, "app-tasks")
			for i := 0; i < nt; i++ {
				w.Go(fmt.Sprintf("app%d", i), func() {
					n := 2 + w.T.Choose(5, "nreg")
					for j := 0; j < n; j++ {
						lf := locals[w.T.Choose(len(locals), "local")]
						p := pr.Peers[w.T.Choose(len(pr.Peers), "peer")]
						p.AwaitDiscovery()
						rd := pr.L.Dev.RemoteDeviceForSki(p.Conn.Ski)
						if rd == nil {
							continue
						}
						rf := rd.FeatureByAddress(FAddr(p.Addr, []uint{1}, pfMeasurementServer))
						if rf == nil {
							continue
						}
						if d.shift > 0 && p == pr.Peers[1] {
							// (requests nobody waits for: they only move this connection's counters on)
							for ; d.shift > 0; d.shift-- {
								sel := &model.MeasurementListDataSelectorsType{MeasurementId: util.Ptr(model.MeasurementIdType(w.Uniq()))}
								_, _ = lf.F.RequestRemoteData(model.FunctionTypeMeasurementListData, sel, nil, rf)
							}
						}
						if w.T.Bool(1, 5, "result-callback") {
							r := &c14Reg{feat: lf, cbid: w.Uniq()}
							d.regs = append(d.regs, r)
							r.invoke = w.Logf("invoke AddResultCallback %s cb%d", AddrStr(lf.Address()), r.cbid)
							lf.F.AddResultCallback(d.mkCallback(w, r))
							r.ret = w.Logf("return AddResultCallback")
							continue
						}
						// a request (reads of distinct selectors are distinct requests, so every request is sent)
						fn := model.FunctionTypeMeasurementListData
						sel := &model.MeasurementListDataSelectorsType{MeasurementId: util.Ptr(model.MeasurementIdType(w.Uniq()))}
						ctr, err := lf.F.RequestRemoteData(fn, sel, nil, rf)
						if err != nil || ctr == nil {
							continue
						}
						c := uint64(*ctr)
						d.reqs[lf] = append(d.reqs[lf], c)
						w.Logf("request %s -> %s ctr=%d", AddrStr(lf.Address()), p.Name, c)
						// the peer answers (maybe) while we register (maybe several callbacks)
						d.answer(w, p, lf, c)
						ncb := 1 + w.T.Choose(3, "ncb")
						reqID := w.Uniq()
						var first *c14Reg
						for k := 0; k < ncb; k++ {
							r := &c14Reg{feat: lf, ctr: c, cbid: 3*w.Uniq() + k, reqID: reqID}
							cb := d.mkCallback(w, r)
							d.regs = append(d.regs, r)
							r.invoke = w.Logf("invoke AddResponseCallback %s ctr=%d cb%d", AddrStr(lf.Address()), c, r.cbid)
							e := lf.F.AddResponseCallback(model.MsgCounterType(c), cb)
							r.refused = e != nil
							r.ret = w.Logf("return AddResponseCallback refused=%v", r.refused)
							if k == 0 {
								first = r
								if w.T.Bool(1, 4, "register-same-again") {
									// the very same function value once more
									r2 := &c14Reg{feat: lf, ctr: c, cbid: r.cbid, dupOf: first, reqID: reqID}
									d.regs = append(d.regs, r2)
									r2.invoke = w.Logf("invoke AddResponseCallback again %s ctr=%d cb%d", AddrStr(lf.Address()), c, r.cbid)
									e := lf.F.AddResponseCallback(model.MsgCounterType(c), cb)
									r2.refused = e != nil
									r2.ret = w.Logf("return AddResponseCallback refused=%v", r2.refused)
								}
							}
						}
						if w.T.Bool(1, 2, "answer-late") {
							d.answer(w, p, lf, c)
						}
					}
				})
			}
		},
		Check: func(w *World) { w.scData.(*c14Data).check(w) },
	})
}

// answer lets the peer send 0-2 datagrams that may or may not reference ctr.
//
//go:norace
func (d *c14Data) answer(w *World, p *Peer, lf *LFeat, ctr uint64) {
	n := w.T.Choose(3, "nanswers")
	for i := 0; i < n; i++ {
		src := FAddr(p.Addr, []uint{1}, pfMeasurementServer)
		dst := lf.Address()
		a := &c14Arrival{peer: p, feat: lf, src: AddrStr(src)}
		kind := w.T.Choose(8, "answer-kind")
		if d.resultsMostly && w.T.Bool(1, 2, "result-instead") {
			kind = 5
		}
		switch kind {
		case 0, 1, 2: // matching reply
			a.ref, a.accepted = ctr, true
		case 3: // reply with another reference
			a.ref, a.accepted = ctr+1000, true
		case 4: // reply without reference
			a.ref, a.accepted = 0, true
		case 5: // matching result
			a.ref, a.isResult, a.accepted = ctr, true, true
		case 6: // same reference, but addressed to another local feature
			for _, c := range d.pr.Clients {
				if c != lf && c.Ent == lf.Ent {
					a.feat = c
					dst = c.Address()
				}
			}
			a.ref, a.accepted = ctr, true
		case 7: // matching reference, but the reply is rejected (function not registered for the source feature type)
			a.ref, a.accepted = ctr, false
		}
		var cmd model.CmdType
		if a.isResult {
			cmd = model.CmdType{ResultData: &model.ResultDataType{ErrorNumber: util.Ptr(model.ErrorNumberType(w.T.Choose(2, "errno")))}}
			a.canon = CanonAny(cmd.ResultData)
		} else if a.accepted {
			data := &model.MeasurementListDataType{MeasurementData: []model.MeasurementDataType{{MeasurementId: util.Ptr(model.MeasurementIdType(w.Uniq()))}}}
			cmd = model.CmdType{MeasurementListData: data}
			a.canon = CanonAny(data)
			// a reply may be restricted (partial): the callback still gets what was received, not
			// what the stack made of it
			if w.T.Bool(1, 3, "partial-reply") {
				cmd.Function = util.Ptr(model.FunctionTypeMeasurementListData)
				cmd.Filter = []model.FilterType{*model.NewFilterTypePartial()}
				w.Probe("c14-partial-reply")
			}
		} else {
			cmd = model.CmdType{LoadControlLimitListData: &model.LoadControlLimitListDataType{}}
		}
		cl := model.CmdClassifierTypeReply
		if a.isResult {
			cl = model.CmdClassifierTypeResult
		}
		h := p.Header(src, dst, cl, nil)
		if a.ref != 0 {
			h.MsgCounterReference = util.Ptr(model.MsgCounterType(a.ref))
		}
		a.ctr = p.Send(model.DatagramType{Header: h, Payload: model.PayloadType{Cmd: []model.CmdType{cmd}}}, fmt.Sprintf("answer(ref=%d,result=%v,accepted=%v)", a.ref, a.isResult, a.accepted))
		d.arrivals = append(d.arrivals, a)
	}
	_ = simrt.Self
}

//go:norace
func (d *c14Data) check(w *World) {
	type win struct {
		a          *c14Arrival
		begin, end uint64
	}
	var wins []win
	for _, a := range d.arrivals {
		for _, del := range a.peer.DeliveriesOf(a.ctr) {
			if del.Done {
				wins = append(wins, win{a, del.Begin, del.End})
			}
		}
	}
	for _, r := range d.regs {
		if r.ret == 0 {
			continue
		}
		// arrivals that may have consumed the callbacks of this key while [a,b] lasted
		consumedWithin := func(feat *LFeat, ctr, a, b uint64) bool {
			for _, x := range wins {
				if x.a.feat == feat && x.a.accepted && x.a.ref == ctr && x.begin < b && x.end > a {
					return true
				}
			}
			return false
		}
		if r.dupOf != nil {
			// the same function value again: refused, unless a matching message consumed the
			// first registration in between (then it is a fresh registration)
			if !r.refused && !consumedWithin(r.feat, r.ctr, r.dupOf.invoke, r.ret) {
				w.Violate("C14/same-callback-registered-twice", "registering the same function twice for ctr %d on %s was accepted", r.ctr, AddrStr(r.feat.Address()))
			}
			w.Probe("c14-duplicate-registration-checked")
			continue
		}
		// message counters are per connection: with two peers the same (feature, counter) key can
		// be used by two requests; a registration that meets an earlier one on its key with the
		// same function literal may legitimately be refused, and shares its invocations
		shared := false
		for _, o := range d.regs {
			if o != r && o.feat == r.feat && o.ctr == r.ctr && r.ctr != 0 && o.reqID != r.reqID {
				shared = true
			}
			if o.dupOf == r && !o.refused {
				shared = true
			}
		}
		if shared {
			w.Probe("c14-key-shared-between-peers")
			for _, c := range r.calls {
				if r.ctr != 0 && c.ref != r.ctr {
					w.Violate("C14/response-callback-for-other-reference", "callback registered for ctr %d was invoked with reference %d", r.ctr, c.ref)
				}
				if c.local != r.feat.F {
					w.Violate("C14/response-callback-for-other-feature", "callback registered on %s was invoked for another local feature", AddrStr(r.feat.Address()))
				}
			}
			continue
		}
		if r.refused {
			w.Violate("C14/distinct-callback-refused", "a distinct callback for ctr %d on %s was refused", r.ctr, AddrStr(r.feat.Address()))
			continue
		}
		must, may := 0, 0
		for _, x := range wins {
			a := x.a
			if a.feat != r.feat || !a.accepted || a.ref == 0 {
				continue
			}
			if r.ctr != 0 && a.ref != r.ctr {
				continue
			}
			if r.ctr == 0 && !a.isResult {
				continue
			}
			switch {
			case x.begin > r.ret:
				must++
			case x.end < r.invoke:
			default:
				may++
			}
		}
		n := len(r.calls)
		kind := "response"
		if r.ctr == 0 {
			kind = "result"
		}
		if r.ctr != 0 {
			// fires once for the first matching arrival, never again
			if n > 1 {
				w.Violate("C14/response-callback-fired-twice", "callback for ctr %d on %s was invoked %d times", r.ctr, AddrStr(r.feat.Address()), n)
			}
			if must > 0 && n != 1 {
				w.Violate("C14/response-callback-not-fired", "callback for ctr %d on %s was invoked %d times although %d matching message(s) arrived after the registration", r.ctr, AddrStr(r.feat.Address()), n, must)
			}
			if must == 0 && may == 0 && n != 0 {
				w.Violate("C14/response-callback-fired-without-message", "callback for ctr %d on %s was invoked although no matching message arrived after the registration", r.ctr, AddrStr(r.feat.Address()))
			}
			if n == 1 && must > 0 {
				w.Probe("c14-callback-fired-once")
			}
			if may > 0 {
				w.Probe("c14-registration-overlapped-arrival")
			}
		} else {
			if n < must || n > must+may {
				w.Violate("C14/result-callback-count", "result callback on %s was invoked %d times, expected between %d and %d", AddrStr(r.feat.Address()), n, must, must+may)
			}
			if must > 0 && n >= must {
				w.Probe("c14-callback-fired-once")
			}
		}
		for _, c := range r.calls {
			if c.local != r.feat.F {
				w.Violate("C14/"+kind+"-callback-for-other-feature", "callback registered on %s was invoked for another local feature", AddrStr(r.feat.Address()))
			}
			if r.ctr != 0 && c.ref != r.ctr {
				w.Violate("C14/response-callback-for-other-reference", "callback registered for ctr %d was invoked with reference %d", r.ctr, c.ref)
			}
			// the data and the originating remote feature belong to one of the candidate arrivals
			ok := false
			for _, x := range wins {
				if x.a.feat == r.feat && x.a.accepted && x.a.ref == c.ref && x.a.src == c.rf && x.a.canon == c.canon {
					ok = true
				}
			}
			if !ok {
				w.Violate("C14/"+kind+"-callback-data-mismatch", "callback on %s (ref %d) got data %s from %s which no matching message carried", AddrStr(r.feat.Address()), c.ref, c.canon, c.rf)
			}
		}
	}
	w.State(fmt.Sprint(len(d.regs), len(wins)))
}
