package harness

import (
	"encoding/json"
	"fmt"
	"reflect"
	"sort"
	"strings"

	"github.com/enbility/spine-go/model"
)

// Abstract lists: the reference semantics of DESIGN Appendix A.1, independent of the
// implementation under test. An item is a map from Go field name to the canonical JSON of
// the field's value (absent fields are absent from the map).

type absItem map[string]string

type absList []absItem

//go:norace
func (it absItem) clone() absItem {
	c := absItem{}
	for k, v := range it {
		c[k] = v
	}
	return c
}

//go:norace
func (l absList) clone() absList {
	var c absList
	for _, it := range l {
		c = append(c, it.clone())
	}
	return c
}

//go:norace
func (it absItem) String() string {
	keys := make([]string, 0, len(it))
	for k := range it {
		keys = append(keys, k)
	}
	sort.Strings(keys)
	var p []string
	for _, k := range keys {
		p = append(p, k+"="+it[k])
	}
	return "{" + strings.Join(p, " ") + "}"
}

// canon renders the list as a sorted multiset.
//
//go:norace
func (l absList) canon() string {
	var s []string
	for _, it := range l {
		s = append(s, it.String())
	}
	sort.Strings(s)
	return strings.Join(s, "\n")
}

// absOfItem converts one item struct value.
//
//go:norace
func absOfItem(v reflect.Value) absItem {
	it := absItem{}
	t := v.Type()
	for i := 0; i < t.NumField(); i++ {
		f := v.Field(i)
		switch f.Kind() {
		case reflect.Ptr, reflect.Slice, reflect.Map, reflect.Interface:
			if f.IsNil() {
				continue
			}
		}
		b, err := json.Marshal(f.Interface())
		if err != nil {
			b = []byte("<unmarshalable>")
		}
		it[t.Field(i).Name] = string(b)
	}
	return it
}

// absOf converts function data (pointer to the list data struct, or nil) to an abstract list.
//
//go:norace
func absOf(info FnInfo, data any) absList {
	if data == nil {
		return nil
	}
	v := reflect.ValueOf(data)
	if v.Kind() == reflect.Ptr {
		if v.IsNil() {
			return nil
		}
		v = v.Elem()
	}
	sl := v.Field(info.ListFld)
	var l absList
	for i := 0; i < sl.Len(); i++ {
		l = append(l, absOfItem(sl.Index(i)))
	}
	return l
}

// identifier returns the identifier of an item ("" if a key field is absent).
//
//go:norace
func (it absItem) identifier(keys []itemField) (string, bool) {
	var p []string
	for _, k := range keys {
		v, ok := it[k.Name]
		if !ok {
			return "", false
		}
		p = append(p, v)
	}
	return strings.Join(p, "|"), true
}

// absSelector: Go field name -> canonical JSON, for the fields set in the selector that also
// exist (by name) in the item type.
//
//go:norace
func absSelectorOf(info FnInfo, sel any) map[string]string {
	if sel == nil {
		return nil
	}
	v := reflect.ValueOf(sel)
	if v.Kind() == reflect.Ptr {
		if v.IsNil() {
			return nil
		}
		v = v.Elem()
	}
	out := map[string]string{}
	for i := 0; i < v.NumField(); i++ {
		f := v.Field(i)
		if f.Kind() != reflect.Ptr || f.IsNil() {
			continue
		}
		name := v.Type().Field(i).Name
		if _, ok := info.ItemType.FieldByName(name); !ok {
			continue
		}
		b, _ := json.Marshal(f.Interface())
		out[name] = string(b)
	}
	return out
}

//go:norace
func (it absItem) matches(sel map[string]string) bool {
	for k, v := range sel {
		iv, ok := it[k]
		if !ok || iv != v {
			return false
		}
	}
	return true
}

// absElementsOf: the item field names an elements value names.
//
//go:norace
func absElementsOf(info FnInfo, el any) []string {
	if el == nil {
		return nil
	}
	v := reflect.ValueOf(el)
	if v.Kind() == reflect.Ptr {
		if v.IsNil() {
			return nil
		}
		v = v.Elem()
	}
	var out []string
	for i := 0; i < v.NumField(); i++ {
		f := v.Field(i)
		switch f.Kind() {
		case reflect.Ptr, reflect.Slice, reflect.Map:
			if f.IsNil() {
				continue
			}
		}
		name := v.Type().Field(i).Name
		if _, ok := info.ItemType.FieldByName(name); ok {
			out = append(out, name)
		}
	}
	return out
}

// absUpdate is one update in abstract form.
type absUpdate struct {
	data        absList
	hasPartial  bool
	partialSel  map[string]string
	hasDelete   bool
	deleteSel   map[string]string
	deleteElems []string
	desc        string
}

// fold applies one update (A.1).
//
//go:norace
func absFold(info FnInfo, s absList, u absUpdate) absList {
	keys := shapeOf(info.ItemType).Keys
	s = s.clone()
	if !u.hasPartial && !u.hasDelete {
		return u.data.clone()
	}
	if u.hasDelete {
		switch {
		case u.deleteSel != nil && len(u.deleteElems) > 0:
			for _, it := range s {
				if it.matches(u.deleteSel) {
					for _, e := range u.deleteElems {
						delete(it, e)
					}
				}
			}
		case u.deleteSel != nil:
			var keep absList
			for _, it := range s {
				if !it.matches(u.deleteSel) {
					keep = append(keep, it)
				}
			}
			s = keep
		case len(u.deleteElems) > 0:
			for _, it := range s {
				for _, e := range u.deleteElems {
					delete(it, e)
				}
			}
		}
	}
	if !u.hasPartial {
		// a delete filter alone is followed by the merge of the data (if any)
		return absMerge(info, s, u.data, keys)
	}
	if len(u.data) == 0 {
		return s
	}
	if u.partialSel != nil {
		d := u.data[0]
		for _, it := range s {
			if it.matches(u.partialSel) {
				for k, v := range d {
					it[k] = v
				}
				break
			}
		}
		return s
	}
	if _, ok := u.data[0].identifier(keys); !ok {
		d := u.data[0]
		for _, it := range s {
			for k, v := range d {
				it[k] = v
			}
		}
		return s
	}
	return absMerge(info, s, u.data, keys)
}

//go:norace
func absMerge(info FnInfo, s absList, data absList, keys []itemField) absList {
	for _, d := range data {
		id, ok := d.identifier(keys)
		if !ok {
			continue
		}
		found := false
		for _, it := range s {
			if iid, ok := it.identifier(keys); ok && iid == id {
				for k, v := range d {
					it[k] = v
				}
				found = true
				break
			}
		}
		if !found {
			s = append(s, d.clone())
		}
	}
	return s
}

// checkListInvariants: at most one item per identifier, numeric keys non-decreasing.
//
//go:norace
func checkListInvariants(info FnInfo, data any) string {
	l := absOf(info, data)
	keys := shapeOf(info.ItemType).Keys
	seen := map[string]bool{}
	for _, it := range l {
		if id, ok := it.identifier(keys); ok {
			if seen[id] {
				return "two items with identifier " + id
			}
			seen[id] = true
		}
	}
	// ordered by numeric identifier (lexicographically over the numeric key fields)
	var prev []uint64
	for _, it := range l {
		var cur []uint64
		all := true
		for _, k := range keys {
			if k.Kind != reflect.Uint {
				all = false
				break
			}
			v, ok := it[k.Name]
			if !ok {
				all = false
				break
			}
			var n uint64
			fmt.Sscan(v, &n)
			cur = append(cur, n)
		}
		if !all {
			prev = nil
			continue
		}
		if prev != nil {
			for i := range cur {
				if cur[i] < prev[i] {
					return fmt.Sprintf("not ordered by numeric identifier: %v after %v", cur, prev)
				}
				if cur[i] > prev[i] {
					break
				}
			}
		}
		prev = cur
	}
	return ""
}

// listFunctions: the registered list functions whose items have generable identifiers
// (computed on first use: the function tables are filled by another file's init).
var listFunctionsCache []FnInfo

//go:norace
func getListFunctions() []FnInfo {
	if listFunctionsCache != nil {
		return listFunctionsCache
	}
	seen := map[model.FunctionType]bool{}
	for _, ft := range allFeatureTypes {
		if ft == model.FeatureTypeTypeGeneric {
			continue
		}
		for _, fi := range fnTable[ft] {
			if !fi.IsList || fi.ListFld < 0 || seen[fi.Fn] {
				continue
			}
			s := shapeOf(fi.ItemType)
			if len(s.Keys) == 0 || s.hasStructKey() {
				continue
			}
			seen[fi.Fn] = true
			listFunctionsCache = append(listFunctionsCache, fi)
		}
	}
	return listFunctionsCache
}

// featureTypeOf returns a feature type the function is registered for.
//
//go:norace
func featureTypeOf(fn model.FunctionType) model.FeatureTypeType {
	for _, ft := range allFeatureTypes {
		if ft == model.FeatureTypeTypeGeneric {
			continue
		}
		if Registered(ft, fn) {
			return ft
		}
	}
	return model.FeatureTypeTypeGeneric
}
