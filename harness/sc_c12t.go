package harness

import (
	"fmt"
	"time"

	"github.com/enbility/spine-go/api"
	"github.com/enbility/spine-go/model"
	"github.com/enbility/spine-go/util"

	"verifsim/simrt"
)

// C12, variant "timeout-changed" (seed C12-f): the application changes the approval timeout
// between writes (SetWriteApprovalTimeout), so the writes that are pending together have
// different deadlines and do not time out in the order of their arrival. Each write is decided by
// its own verdicts against its own deadline, "independently of any other write pending at the
// same time": a write that times out takes nothing of another write with it.
//
// All writes arrive at (simulated) time 0 - the clock only moves when nothing else can run - each
// under the timeout that was set right before it; callback k answers write i at a fraction
// (1/4, 1/2, 3/4: in time; 5/4: late) of that write's own timeout, denies at such a moment, or
// stays silent.

type c12tWrite struct {
	ctr     uint64
	timeout time.Duration
	canon   string
	kinds   []string        // per callback: approve | deny | silent
	at      []time.Duration // per callback: when it answers
	wantOK  bool
	lastAt  time.Duration
	present []int
}

func init() {
	Register(&Scenario{
		Prop: "C12", Name: "timeout-changed", DeadlockDirected: true, Weight: 1,
		NonTrivial: []string{"c12t-write-decided"},
		Build: func(w *World) {
			w.advNum = 0
			pr := BuildProto(w, ProtoOpt{Peers: 1, MinServers: 1, ServerTypes: []model.FeatureTypeType{model.FeatureTypeTypeLoadControl}})
			p := pr.Peers[0]
			sf := pr.Servers[0]
			ncb := 1 + w.T.Choose(3, "callbacks")
			fn := sf.Funcs[0]
			info := fnByName[fn.Fn]
			nw := 2 + w.T.Choose(2, "writes")
			touts := []time.Duration{time.Second, 3 * time.Second, 8 * time.Second}
			fracs := []int{1, 2, 3, 5} // quarters of the write's own timeout
			var writes []*c12tWrite
			var cmds []model.CmdType
			last := -1
			for i := 0; i < nw; i++ {
				x := &c12tWrite{present: make([]int, ncb)}
				// consecutive writes get different timeouts
				ti := w.T.Choose(len(touts), "timeout")
				if ti == last {
					ti = (ti + 1) % len(touts)
				}
				last = ti
				x.timeout = touts[ti]
				x.wantOK = true
				for cb := 0; cb < ncb; cb++ {
					k := []string{"approve", "approve", "approve", "deny", "silent"}[w.T.Choose(5, "verdict")]
					at := x.timeout * time.Duration(fracs[w.T.Choose(len(fracs), "verdict-at")]) / 4
					x.kinds = append(x.kinds, k)
					x.at = append(x.at, at)
					if k != "approve" || at >= x.timeout {
						x.wantOK = false
					}
					if k == "approve" && at > x.lastAt {
						x.lastAt = at
					}
				}
				data := w.GenSimpleList(info, 1)
				w.ForceUnique(info, data)
				cmd := model.CmdType{}
				SetCmdData(&cmd, fn.Fn, data)
				x.canon = CanonAny(data)
				cmds = append(cmds, cmd)
				writes = append(writes, x)
			}
			find := func(msg *api.Message) *c12tWrite {
				if msg == nil || msg.RequestHeader == nil || msg.RequestHeader.MsgCounter == nil {
					return nil
				}
				for _, x := range writes {
					if x.ctr == uint64(*msg.RequestHeader.MsgCounter) {
						return x
					}
				}
				return nil
			}
			for cb := 0; cb < ncb; cb++ {
				cb := cb
				_ = sf.F.AddWriteApprovalCallback(func(msg *api.Message) {
					x := find(msg)
					if x == nil {
						w.Violate("C12/unknown-write-presented", "callback %d was given a write the peer did not send", cb)
						return
					}
					x.present[cb]++
					if x.kinds[cb] == "silent" {
						w.Fault("app.silent")
						return
					}
					if x.at[cb] >= x.timeout {
						w.Fault("app.late")
					}
					w.Sleep(x.at[cb])
					e := model.ErrorType{}
					if x.kinds[cb] == "deny" {
						e = *model.NewErrorTypeFromString("denied by application")
					}
					w.Logf("verdict %s of callback %d for write ctr=%d at +%v (its timeout %v)", x.kinds[cb], cb, x.ctr, w.Now(), x.timeout)
					sf.F.ApproveOrDenyWrite(msg, e)
				})
			}
			w.Go("script:"+p.Name, func() {
				p.AwaitDiscovery()
				cf := (&actor{w: w, pr: pr}).clientFor(p, sf)
				p.Await(p.SendBind(cf, sf.Address(), sf.Type, false, "bind"))
				before := CanonAny(sf.F.DataCopy(fn.Fn))
				start := len(p.Conn.Out)
				for i, x := range writes {
					// the timeout in force when the write arrives is the one set right before it
					sf.F.SetWriteApprovalTimeout(x.timeout)
					h := p.Header(cf.Address(), sf.Address(), model.CmdClassifierTypeWrite, util.Ptr(true))
					x.ctr = uint64(*h.MsgCounter)
					w.Logf("write %d ctr=%d timeout=%v verdicts=%v at=%v", i, x.ctr, x.timeout, x.kinds, x.at)
					p.Send(model.DatagramType{Header: h, Payload: model.PayloadType{Cmd: []model.CmdType{cmds[i]}}}, fmt.Sprintf("write-%d", i))
					p.Await(x.ctr)
				}
				if w.Now() != 0 {
					// (cannot happen with advance-rate 0; the oracle below assumes arrival at time 0)
					w.Probe("c12t-arrivals-not-simultaneous")
					return
				}
				// everything is decided after the longest timeout and the latest verdict
				w.Sleep(11 * time.Second)
				simrt.WaitUntil("conn-idle", func() bool { return len(p.Conn.Queue) == 0 && !p.Conn.Handling })
				wantFinal := map[string]bool{}
				var latest time.Duration = -1
				for _, x := range writes {
					if x.wantOK && x.lastAt > latest {
						latest = x.lastAt
					}
				}
				for _, x := range writes {
					if x.wantOK && x.lastAt == latest {
						wantFinal[x.canon] = true
					}
				}
				if latest < 0 {
					wantFinal[before] = true
				}
				for i, x := range writes {
					nOK, nErr := 0, 0
					for _, s := range p.Conn.Out[start:] {
						if s.D == nil || s.D.Header.MsgCounterReference == nil || uint64(*s.D.Header.MsgCounterReference) != x.ctr {
							continue
						}
						if isRes, e := IsResult(s); isRes {
							if e == 0 {
								nOK++
							} else {
								nErr++
							}
						}
					}
					for cb, n := range x.present {
						if n != 1 {
							w.Violate("C12/timeout-changed/write-presented-not-once", "write %d was presented %d times to callback %d", i, n, cb)
							return
						}
					}
					desc := fmt.Sprintf("write %d (timeout %v, verdicts %v at %v; the others: %s)", i, x.timeout, x.kinds, x.at, c12tOthers(writes, i))
					switch {
					case nOK+nErr != 1:
						w.Violate("C12/timeout-changed/several-or-no-outcomes", "%s: %d success and %d error results", desc, nOK, nErr)
						return
					case x.wantOK && nOK != 1:
						w.Violate("C12/timeout-changed/unanimous-approval-not-applied", "%s: every callback approved before its deadline, %d error results", desc, nErr)
						return
					case !x.wantOK && nErr != 1:
						w.Violate("C12/timeout-changed/partly-approved-write-applied", "%s: %d success results", desc, nOK)
						return
					}
					w.Probe("c12t-write-decided")
					if x.wantOK {
						w.Probe("c12t-write-approved")
					}
				}
				if now := CanonAny(sf.F.DataCopy(fn.Fn)); !wantFinal[now] {
					w.Violate("C12/timeout-changed/final-data", "the function holds %s; initial %s; writes: %s", now, before, c12tOthers(writes, -1))
				}
				w.State(fmt.Sprint(latest))
			})
		},
	})
}

//go:norace
func c12tOthers(ws []*c12tWrite, skip int) string {
	s := ""
	for i, x := range ws {
		if i != skip {
			s += fmt.Sprintf("[%d: timeout %v verdicts %v at %v approved=%v] ", i, x.timeout, x.kinds, x.at, x.wantOK)
		}
	}
	return s
}
