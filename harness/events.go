package harness

import (
	"github.com/enbility/spine-go/api"
	"github.com/enbility/spine-go/spine"
)

// EvRec is one event delivered to the harness's application-level handler.
type EvRec struct {
	Seq uint64
	P   api.EventPayload
}

// EventLog is an application-level spine.Events handler that records what it receives.
type EventLog struct {
	W  *World
	Ev []EvRec
}

//go:norace
func (l *EventLog) HandleEvent(p api.EventPayload) {
	seq := l.W.Logf("app-event type=%d change=%d ski=%s fn=%s", p.EventType, p.ChangeType, p.Ski, p.Function)
	l.Ev = append(l.Ev, EvRec{Seq: seq, P: p})
}

// CollectEvents subscribes an application-level recorder to the (process-global) event bus.
//
//go:norace
func (w *World) CollectEvents() *EventLog {
	l := &EventLog{W: w}
	_ = spine.Events.Subscribe(l)
	return l
}

//go:norace
func (l *EventLog) Count(t api.EventType, c api.ElementChangeType, ski string) int {
	n := 0
	for _, e := range l.Ev {
		if e.P.EventType == t && e.P.ChangeType == c && (ski == "" || e.P.Ski == ski) {
			n++
		}
	}
	return n
}

// evCollector is the string-based variant used by the registry scenarios.
type evCollector struct {
	w    *World
	want api.EventType
	out  *[]string
}

//go:norace
func (h *evCollector) HandleEvent(p api.EventPayload) {
	if p.EventType != h.want {
		return
	}
	s := "remove"
	if p.ChangeType == api.ElementChangeAdd {
		s = "add"
	}
	h.w.Logf("app-event %s type=%d ski=%s", s, p.EventType, p.Ski)
	*h.out = append(*h.out, s+" "+p.Ski)
}

//go:norace
func subscribeApp(w *World, h api.EventHandlerInterface) { _ = spine.Events.Subscribe(h) }
