package harness

import (
	"fmt"

	"github.com/enbility/spine-go/api"
	"github.com/enbility/spine-go/model"
	"github.com/enbility/spine-go/util"

	"verifsim/simrt"
)

// C13, variant "responses-on-the-wire": the clause "a response referencing that counter
// re-enables sending" seen from outside - responses are datagrams of the peer (well-formed
// ones and ones the stack cannot process any further), and the application repeats a request
// from the response callback. One task issues requests, so the expectation of every request is
// exact: it is sent with a new counter iff no identical request is unanswered.

type c13wKey struct {
	lastCtr  uint64
	answered bool
}

type c13wData struct {
	nreq int
}

func init() {
	Register(&Scenario{Prop: "C13", Name: "responses-on-the-wire", NonTrivial: []string{"c13w-request-after-response"}, Weight: 1,
		Build: func(w *World) {
			pr := BuildProto(w, ProtoOpt{Peers: 1, MinServers: 1, ClientFeats: true})
			d := &c13wData{}
			w.scData = d
			p := pr.Peers[0]
			p.AutoAck = false
			w.EnableFaults("net.dup")
			rd := pr.L.Dev.RemoteDeviceForSki(p.Conn.Ski)
			snd := rd.Sender()
			local := pr.Clients[0]
			dsts := []*model.FeatureAddressType{FAddr(p.Addr, []uint{1}, pfMeasurementServer), FAddr(p.Addr, []uint{1, 1}, 3)}
			keys := map[string]*c13wKey{}
			// request issues one request and checks it against the expectation
			var request func(di, fi int, why string) uint64
			request = func(di, fi int, why string) uint64 {
				dst := dsts[di]
				fn := c13ReadFns[fi]
				cmd := model.CmdType{}
				switch fn {
				case model.FunctionTypeMeasurementListData:
					cmd.MeasurementListData = &model.MeasurementListDataType{}
				case model.FunctionTypeMeasurementDescriptionListData:
					cmd.MeasurementDescriptionListData = &model.MeasurementDescriptionListDataType{}
				default:
					cmd.MeasurementConstraintsListData = &model.MeasurementConstraintsListDataType{}
				}
				k := fmt.Sprintf("%d|%d", di, fi)
				st := keys[k]
				if st == nil {
					st = &c13wKey{answered: true}
					keys[k] = st
				}
				n0 := len(p.Conn.Out)
				inv := w.Logf("invoke request %s|%s (%s)", AddrStr(dst), fn, why)
				simrt.Self().OpSeq = inv
				c, err := snd.Request(model.CmdClassifierTypeRead, local.Address(), dst, false, []model.CmdType{cmd})
				var ctr uint64
				if c != nil {
					ctr = uint64(*c)
				}
				w.Logf("return request ctr=%d err=%v", ctr, err)
				sent := 0
				for _, s := range p.Conn.Out[n0:] {
					if s.D != nil && s.D.Header.MsgCounter != nil && uint64(*s.D.Header.MsgCounter) == ctr && Classifier(s) == "read" {
						sent++
					}
				}
				d.nreq++
				if st.answered {
					// nothing identical is unanswered: the request goes out under a new counter
					if sent != 1 || ctr == st.lastCtr {
						w.Violate("C13/answered-request-not-sent-again/"+why, "request %s|%s (%s): the identical request ctr %d has been answered, but the request was not sent again (returned ctr %d, %d datagram(s) written)", AddrStr(dst), fn, why, st.lastCtr, ctr, sent)
					}
					if st.lastCtr != 0 {
						w.Probe("c13w-request-after-response")
					}
					if sent == 1 {
						st.lastCtr, st.answered = ctr, false
					}
				} else {
					if sent != 0 || ctr != st.lastCtr {
						w.Violate("C13/identical-unanswered-request-sent-again", "request %s|%s (%s): the identical request ctr %d is unanswered, yet ctr %d was returned and %d datagram(s) written", AddrStr(dst), fn, why, st.lastCtr, ctr, sent)
					}
					w.Probe("c13w-request-withheld")
				}
				return ctr
			}
			w.Go("app", func() {
				p.AwaitDiscovery()
				n := 3 + w.T.Choose(8, "nrounds")
				for i := 0; i < n; i++ {
					di, fi := w.T.Choose(len(dsts), "dst"), w.T.Choose(len(c13ReadFns), "fn")
					k := fmt.Sprintf("%d|%d", di, fi)
					ctr := request(di, fi, "app")
					st := keys[k]
					if ctr == 0 || st.answered || !w.T.Bool(3, 4, "answer") {
						continue
					}
					// the peer answers the unanswered request ctr (= st.lastCtr)
					kind := w.T.Choose(5, "response-kind")
					cbState := 0 // 1 registered, 2 ran
					if kind <= 1 && w.T.Bool(1, 2, "repeat-from-callback") {
						cbState = 1
						_ = local.F.AddResponseCallback(model.MsgCounterType(ctr), func(msg api.ResponseMessage) {
							// the response has reached the application: the request may be repeated at once
							st.answered = true
							request(di, fi, "from-response-callback")
							w.Probe("c13w-request-from-callback")
							cbState = 2
						})
					}
					src, dst := dsts[di], local.Address()
					var h model.HeaderType
					var cmd model.CmdType
					tag := ""
					switch kind {
					case 0:
						tag = "reply"
						h = p.Header(src, dst, model.CmdClassifierTypeReply, nil)
						cmd.MeasurementListData = &model.MeasurementListDataType{}
					case 1:
						tag = "error-result"
						h = p.Header(src, dst, model.CmdClassifierTypeResult, nil)
						cmd.ResultData = &model.ResultDataType{ErrorNumber: util.Ptr(model.ErrorNumberType(1)), Description: util.Ptr(model.DescriptionType("no"))}
					case 2:
						// a response the stack cannot attribute to a known feature of the peer
						tag = "reply-from-unknown-feature"
						h = p.Header(FAddr(p.Addr, []uint{1}, 99), dst, model.CmdClassifierTypeReply, nil)
						cmd.MeasurementListData = &model.MeasurementListDataType{}
					case 3:
						tag = "reply-to-unknown-local-feature"
						h = p.Header(src, FAddr(pr.L.Addr, []uint{1}, 99), model.CmdClassifierTypeReply, nil)
						cmd.MeasurementListData = &model.MeasurementListDataType{}
					default:
						tag = "reply-with-foreign-function"
						h = p.Header(src, dst, model.CmdClassifierTypeReply, nil)
						cmd.LoadControlLimitListData = &model.LoadControlLimitListDataType{}
					}
					h.MsgCounterReference = util.Ptr(model.MsgCounterType(ctr))
					pc := p.Send(model.DatagramType{Header: h, Payload: model.PayloadType{Cmd: []model.CmdType{cmd}}}, tag)
					p.Await(pc)
					w.Probe("c13w-response-" + tag)
					if cbState != 0 {
						simrt.WaitUntil("callback-done", func() bool { return cbState == 2 })
					} else {
						// the response has been handled: the request is answered
						st.answered = true
					}
				}
			})
		},
		Check: func(w *World) {
			d := w.scData.(*c13wData)
			w.State(fmt.Sprint(d.nreq))
		},
	})
}
