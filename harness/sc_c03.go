package harness

import (
	"fmt"
	"strings"

	"github.com/enbility/spine-go/api"
	"github.com/enbility/spine-go/model"
	"github.com/enbility/spine-go/util"

	"verifsim/simrt"
)

// C03 — a remote write takes effect only with a binding and write permission.

type writeOp struct {
	peer     *Peer
	ctr      uint64
	src      *PFeat
	dst      *LFeat
	fn       PFunc
	ack      bool
	canon    string // canonical JSON of the written data
	srcKnown bool   // source feature announced at send time
	desc     string
	before   map[*Delivery]string
	after    map[*Delivery]string
}

// actor drives one scripted peer through binds, subscriptions, writes, disconnects.
type actor struct {
	w      *World
	pr     *Proto
	binds  *regScript
	subs   *regScript
	writes []*writeOp
	extra  []RegOp // drop / entdrop operations
	// pairs a peer asked a binding for (whatever the answer was): writes prefer them, so that a
	// good share of the writes is authorised
	asked map[string][]askedPair
}

type askedPair struct {
	sf *LFeat
	cf *PFeat
}

//go:norace
func (a *actor) clientFor(p *Peer, sf *LFeat) *PFeat {
	var match []*PFeat
	for _, e := range p.Ents[1:] {
		for _, f := range e.Feats {
			if f.Type == sf.Type && f.Role == model.RoleTypeClient {
				match = append(match, f)
			}
		}
	}
	if len(match) == 0 {
		return p.Ents[1].Feats[0]
	}
	return match[a.w.T.Choose(len(match), "client")]
}

// sendWrite sends a full write of generated data.
//
//go:norace
func (a *actor) sendWrite(p *Peer, sf *LFeat, cf *PFeat, fn PFunc, desc string) *writeOp {
	w := a.w
	info := fnByName[fn.Fn]
	data := w.GenData(info)
	cmd := model.CmdType{}
	SetCmdData(&cmd, fn.Fn, data)
	// the optional function element of the cmd: absent, naming the function of the data element,
	// or naming another function of the same feature (what is written, and hence what has to be
	// writable, is the function of the data element the cmd carries)
	switch w.T.Choose(6, "function-element") {
	case 0, 1:
		cmd.Function = util.Ptr(fn.Fn)
	case 2:
		var others []PFunc
		for _, o := range sf.Funcs {
			if o.Fn != fn.Fn {
				others = append(others, o)
			}
		}
		if len(others) > 0 {
			o := others[w.T.Choose(len(others), "other-function")]
			cmd.Function = util.Ptr(o.Fn)
			desc += "+function-element-names-another-function"
			w.Probe("write-function-element-names-another-function")
			if o.W != fn.W {
				w.Probe("write-function-element-names-function-of-other-writability")
			}
		}
	}
	ack := w.T.Bool(1, 2, "ack")
	var ackp *bool
	if ack {
		ackp = util.Ptr(true)
	} else if w.T.Bool(1, 3, "ack-false") {
		ackp = util.Ptr(false)
	}
	wo := &writeOp{peer: p, src: cf, dst: sf, fn: fn, ack: ack, canon: CanonAny(data), desc: desc, before: map[*Delivery]string{}, after: map[*Delivery]string{}}
	wo.srcKnown = p.Entity(cf.Ent.Addr) != nil && p.Entity(cf.Ent.Addr).Feature(cf.ID) != nil
	// who writes is a matter of the connection the write arrives on: the device part of the source
	// address may be absent (it is optional) or name somebody else (a peer that claims the device
	// address of the binding's owner gains nothing by it)
	srcAddr := cf.Address()
	switch w.T.Choose(8, "source-device") {
	case 0:
		srcAddr.Device = nil
		desc += "+source-device-omitted"
		wo.desc = desc
		w.Probe("write-source-device-omitted")
	case 1:
		for _, q := range a.pr.Peers {
			if q != p {
				srcAddr.Device = util.Ptr(model.AddressDeviceType(q.Addr))
				desc += "+source-device-of-another-peer"
				wo.desc = desc
				w.Probe("write-source-device-of-another-peer")
				break
			}
		}
	}
	wo.ctr = p.SendCmd(srcAddr, sf.Address(), model.CmdClassifierTypeWrite, ackp, cmd, "write:"+desc)
	a.writes = append(a.writes, wo)
	return wo
}

// hookSnapshots installs the before/after DataCopy snapshots around write deliveries.
//
//go:norace
func (a *actor) hookSnapshots(p *Peer) {
	find := func(d *Delivery) *writeOp {
		if d.D == nil || d.D.Header.MsgCounter == nil || d.D.Header.CmdClassifier == nil || *d.D.Header.CmdClassifier != model.CmdClassifierTypeWrite {
			return nil
		}
		for _, wo := range a.writes {
			if wo.peer == p && wo.ctr == uint64(*d.D.Header.MsgCounter) {
				return wo
			}
		}
		return nil
	}
	p.Conn.BeforeDeliver = func(d *Delivery) {
		if wo := find(d); wo != nil {
			wo.before[d] = CanonAny(wo.dst.F.DataCopy(wo.fn.Fn))
		}
	}
	p.Conn.AfterDeliver = func(d *Delivery) {
		if wo := find(d); wo != nil {
			wo.after[d] = CanonAny(wo.dst.F.DataCopy(wo.fn.Fn))
		}
	}
}

//go:norace
func (a *actor) run(p *Peer, nops int) {
	w := a.w
	pr := a.pr
	p.AwaitDiscovery()
	for i := 0; i < nops; i++ {
		sf := pr.Servers[w.T.Choose(len(pr.Servers), "server")]
		cf := a.clientFor(p, sf)
		var await uint64
		switch k := w.T.Choose(16, "action"); {
		case k < 4: // bind the matching client
			ft := sf.Type
			ri := &regIssued{peer: p, op: RegOp{Kind: "bind", Peer: p.Name, Client: AddrStr(cf.Address()), Server: AddrStr(sf.Address()), Desc: "valid"}}
			ri.op.Valid = regStaticValid(pr.L, p, cf.Address(), sf.Address(), &ft)
			ri.ctr = p.SendBind(cf, sf.Address(), sf.Type, false, "bind:valid")
			a.binds.issued = append(a.binds.issued, ri)
			await = ri.ctr
			if a.asked == nil {
				a.asked = map[string][]askedPair{}
			}
			a.asked[p.Name] = append(a.asked[p.Name], askedPair{sf, cf})
		case k < 5: // unbind
			ri := &regIssued{peer: p, op: RegOp{Kind: "unbind", Peer: p.Name, Client: AddrStr(cf.Address()), Server: AddrStr(sf.Address()), Desc: "delete"}}
			ca := cf.Address()
			if a.w.T.Bool(1, 4, "delete-omits-client-device") {
				// (an absent device part means the sender's device: the same request, seed C03-h)
				ca.Device = nil
				ri.op.Desc += "+client-device-omitted"
				a.w.Probe("actor-delete-omits-client-device")
			}
			ri.ctr = p.SendUnbind(ca, sf.Address(), "unbind")
			a.binds.issued = append(a.binds.issued, ri)
			await = ri.ctr
		case k < 7: // subscribe
			ft := sf.Type
			ri := &regIssued{peer: p, op: RegOp{Kind: "sub", Peer: p.Name, Client: AddrStr(cf.Address()), Server: AddrStr(sf.Address()), Desc: "valid"}}
			ri.op.Valid = regStaticValid(pr.L, p, cf.Address(), sf.Address(), &ft)
			ri.ctr = p.SendSubscribe(cf, sf.Address(), sf.Type, false, "sub:valid")
			a.subs.issued = append(a.subs.issued, ri)
			await = ri.ctr
		case k < 13: // write
			if l := a.asked[p.Name]; len(l) > 0 && w.T.Bool(2, 3, "write-where-binding-was-asked") {
				ap := l[w.T.Choose(len(l), "asked-pair")]
				sf, cf = ap.sf, ap.cf
			}
			if len(sf.Funcs) == 0 {
				continue
			}
			fn := sf.Funcs[w.T.Choose(len(sf.Funcs), "fn")]
			desc := "from-matching-client"
			src := cf
			if w.T.Bool(1, 5, "write-from-other-feature") {
				// a feature of the same peer that holds (at most) a binding to a different feature
				pool := a.binds.clientPool(p)
				src = pool[w.T.Choose(len(pool), "other-src")]
				desc = "from-other-feature"
			}
			await = a.sendWrite(p, sf, src, fn, desc).ctr
		case k < 14: // disconnect (+ reconnect)
			if !w.FaultsOn || w.FaultRate["conn.drop"] == 0 {
				continue
			}
			call := w.Logf("fault conn.drop %s", p.Name)
			simrt.Self().OpSeq = call
			if pr.L.Disconnect(p.Name) {
				w.Fault("conn.drop")
				a.extra = append(a.extra, RegOp{Kind: "drop", Peer: p.Name, OK: true, Call: p.Conn.RemoveBeganAt, Return: w.Stamp(), Desc: "conn.drop"})
			}
			if w.T.Bool(3, 4, "reconnect") {
				w.Fault("conn.restart")
				if w.T.Bool(1, 3, "subscribes-node-management-before-answering-discovery") {
					// the peer's own subscription call overtakes its discovery reply (net.reorder on
					// the peer's side): the node grants it to a feature whose device it does not know yet
					p.AutoDD = false
					p.Connect()
					a.hookSnapshots(p)
					w.Fault("net.reorder")
					w.Probe("node-management-subscription-before-discovery-reply")
					nmT := model.FeatureTypeTypeNodeManagement
					ri := &regIssued{peer: p, op: RegOp{Kind: "sub", Peer: p.Name, Client: AddrStr(p.NM().Address()), Server: AddrStr(p.LocalNM()), Desc: "node-management-before-discovery", Valid: true}}
					ri.ctr = p.SendSubscribe(p.NM(), p.LocalNM(), nmT, false, "sub:nm-before-discovery")
					a.subs.issued = append(a.subs.issued, ri)
					p.Await(ri.ctr)
					p.AutoDD = true
					p.AnswerHeldDiscovery()
				} else {
					p.Connect()
					a.hookSnapshots(p)
				}
				p.AwaitDiscovery()
			} else {
				return
			}
		case k < 15: // the peer removes its second entity
			if !w.FaultsOn || w.FaultRate["peer.entity_remove"] == 0 {
				continue
			}
			e := p.Entity([]uint{1, 1})
			if e == nil {
				continue
			}
			w.Fault("peer.entity_remove")
			removed := model.NetworkManagementStateChangeTypeRemoved
			gone := []*PEnt{e}
			if w.T.Bool(1, 3, "also-removes-an-unknown-entity") {
				// the same notification also names an entity the node never heard of (a repeated
				// removal, say), before the real one
				gone = []*PEnt{{Peer: p, Addr: []uint{7}, Type: model.EntityTypeTypeEV}, e}
				w.Probe("entity-removal-names-unknown-entity-first")
			}
			cmd := model.CmdType{
				Function:                            util.Ptr(model.FunctionTypeNodeManagementDetailedDiscoveryData),
				Filter:                              []model.FilterType{*model.NewFilterTypePartial()},
				NodeManagementDetailedDiscoveryData: p.DiscoveryData(gone, &removed, false),
			}
			ctr := p.SendCmd(p.NM().Address(), p.LocalNM(), model.CmdClassifierTypeNotify, nil, cmd, "entity-removed")
			p.RemoveEntity([]uint{1, 1})
			a.extra = append(a.extra, RegOp{Kind: "entdrop", Peer: p.Name, Client: p.Addr + "/[1,1]/", OK: true, Desc: fmt.Sprint(ctr)})
			await = ctr
		default:
			// the peer announces an entity it has announced before once more (as "added", with
			// the same features): nothing changes for anybody - but the node builds its view of
			// that entity anew
			if e := p.Entity([]uint{1}); e != nil && w.T.Bool(1, 2, "re-announce") {
				if e2 := p.Entity([]uint{1, 1}); e2 != nil && w.T.Bool(1, 3, "re-announce-second") {
					e = e2
				}
				added := model.NetworkManagementStateChangeTypeAdded
				dd := p.DiscoveryData([]*PEnt{e}, &added, true)
				if w.T.Bool(1, 3, "device-information-names-another-peer") {
					// the device information of the announcement claims to be somebody else: who a
					// peer is, is a matter of its connection
					for _, q := range pr.Peers {
						if q != p {
							dd.DeviceInformation.Description.DeviceAddress.Device = util.Ptr(model.AddressDeviceType(q.Addr))
							w.Probe("announcement-with-foreign-device-information")
							break
						}
					}
				}
				cmd := model.CmdType{
					Function:                            util.Ptr(model.FunctionTypeNodeManagementDetailedDiscoveryData),
					Filter:                              []model.FilterType{*model.NewFilterTypePartial()},
					NodeManagementDetailedDiscoveryData: dd,
				}
				await = p.SendCmd(p.NM().Address(), p.LocalNM(), model.CmdClassifierTypeNotify, nil, cmd, "entity-announced-again")
				w.Probe("peer-announced-known-entity-again")
			} else {
				w.Yield("idle")
			}
		}
		if await != 0 && w.T.Bool(2, 3, "await") {
			p.Await(await)
		}
	}
}

// finishExtra fills in the windows of entity-removal operations from their deliveries.
//
//go:norace
func (a *actor) finishExtra() []RegOp {
	return resolveEntdrops(a.pr.Peers, a.extra)
}

// resolveEntdrops: one operation per handled delivery of the removal notification (Desc holds
// its message counter); other operations pass through.
//
//go:norace
func resolveEntdrops(peers []*Peer, extra []RegOp) []RegOp {
	var out []RegOp
	for _, o := range extra {
		if o.Kind == "entdrop" {
			var ctr uint64
			fmt.Sscan(o.Desc, &ctr)
			for _, p := range peers {
				if p.Name != o.Peer {
					continue
				}
				for _, d := range p.DeliveriesOf(ctr) {
					if d.Done {
						x := o
						x.Call, x.Return = d.Begin, d.End
						out = append(out, x)
					}
				}
			}
			continue
		}
		out = append(out, o)
	}
	return out
}

//go:norace
func writeEvents(ev *EventLog, ski string, f api.FeatureLocalInterface, fn model.FunctionType) int {
	n := 0
	for _, e := range ev.Ev {
		if e.P.EventType == api.EventTypeDataChange && e.P.Ski == ski && e.P.LocalFeature == f && e.P.Function == fn &&
			e.P.CmdClassifier != nil && *e.P.CmdClassifier == model.CmdClassifierTypeWrite {
			n++
		}
	}
	return n
}

// checkWrites applies the C03 oracle to every delivered write.
//
//go:norace
func (a *actor) checkWrites(prop string, ev *EventLog, regOps []RegOp, dops []*dataOp) {
	w := a.w
	type evKey struct {
		ski string
		f   *LFeat
		fn  model.FunctionType
	}
	minEv, maxEv := map[evKey]int{}, map[evKey]int{}
	// a write is "rejected again as soon as the binding is deleted": a delete call for a binding
	// that certainly stands (granted, nothing else touching the pair meanwhile) removes it - a
	// refusal would leave the peer authorised against its will (seed C03-h; the authorisation
	// oracle below follows the results the node gave, so it cannot see this by itself)
	for _, o := range regOps {
		if o.Kind != "unbind" || o.OK || o.Return == 0 || prop != "C03" {
			continue
		}
		key := RegKey{o.Peer, o.Client, o.Server}
		if subscribedState(regOps, "bind", key, o.Call, o.Return) == 1 {
			w.Violate(prop+"/valid-binding-delete-refused", "%s's delete call for its binding %s -> %s (%s) was refused although the binding stands", o.Peer, o.Client, o.Server, o.Desc)
		} else {
			w.Probe("unbind-refused-without-binding")
		}
	}
	for _, wo := range a.writes {
		for _, d := range wo.peer.DeliveriesOf(wo.ctr) {
			if !d.Done {
				continue
			}
			key := RegKey{wo.peer.Name, AddrStr(wo.src.Address()), AddrStr(wo.dst.Address())}
			bound := subscribedState(regOps, "bind", key, d.Begin, d.End)
			// was the source feature announced while the write was handled?
			srcKnown := wo.srcKnown
			for _, o := range regOps {
				if o.Kind == "entdrop" && o.Peer == wo.peer.Name && strings.HasPrefix(key.Client, o.Client) && o.Return < d.Begin {
					srcKnown = false
				}
			}
			auth := 0
			if wo.fn.W && bound == 1 && srcKnown {
				auth = 1
			} else if wo.fn.W && bound == -1 && srcKnown {
				auth = -1
			}
			// other activity on the same function data during the handling
			overl := false
			for _, w2 := range a.writes {
				if w2 == wo || w2.dst != wo.dst || w2.fn.Fn != wo.fn.Fn {
					continue
				}
				for _, d2 := range w2.peer.DeliveriesOf(w2.ctr) {
					if d2.Pre < d.Post && d.Pre < d2.Post || d2.Post == 0 {
						overl = true
					}
				}
			}
			for _, o := range dops {
				if o.feat == wo.dst && o.fn == wo.fn.Fn && o.invoke < d.Post && (o.ret == 0 || d.Pre < o.ret) {
					overl = true
				}
			}
			res := wo.peer.RespDuring(d)
			nErr, nOK := 0, 0
			for _, s := range res {
				if isRes, e := IsResult(s); isRes {
					if e == 0 {
						nOK++
					} else {
						nErr++
					}
				}
			}
			notifies := 0
			for _, p := range a.pr.Peers {
				for _, s := range p.Conn.Out {
					if s.OpSeq == d.Pre && Classifier(s) == "notify" && s.D != nil && AddrStr(s.D.Header.AddressSource) == AddrStr(wo.dst.F.Address()) {
						notifies++
					}
				}
			}
			before, after := wo.before[d], wo.after[d]
			k := evKey{wo.peer.Conn.Ski, wo.dst, wo.fn.Fn}
			shape := wo.desc
			if !wo.fn.W {
				shape = "read-only-function"
			}
			switch auth {
			case 0:
				w.Probe("write-unauthorised")
				if !overl && before != after {
					w.Violate(prop+"/unauthorised-write-changed-data/"+shape, "write %s#%d (%s, bound=%d, writable=%v) changed %s from %s to %s", wo.peer.Name, wo.ctr, wo.desc, bound, wo.fn.W, wo.fn.Fn, before, after)
				}
				if notifies != 0 {
					w.Violate(prop+"/unauthorised-write-notified/"+shape, "unauthorised write %s#%d caused %d notifications", wo.peer.Name, wo.ctr, notifies)
				}
				if srcKnown && (nErr != 1 || nOK != 0) {
					w.Violate(prop+"/unauthorised-write-result/"+shape, "unauthorised write %s#%d (%s) got %d error and %d success results, want exactly one error", wo.peer.Name, wo.ctr, wo.desc, nErr, nOK)
				}
				if !srcKnown && nOK != 0 {
					w.Violate(prop+"/unannounced-writer-accepted", "write %s#%d from an unannounced feature was acknowledged", wo.peer.Name, wo.ctr)
				}
			case 1:
				w.Probe("write-authorised")
				minEv[k]++
				maxEv[k]++
				if !overl && after != wo.canon {
					w.Violate(prop+"/authorised-write-not-applied", "authorised write %s#%d left %s = %s, want %s", wo.peer.Name, wo.ctr, wo.fn.Fn, after, wo.canon)
				}
				wantOK := 0
				if wo.ack {
					wantOK = 1
				}
				if nErr != 0 || nOK != wantOK {
					w.Violate(prop+"/authorised-write-result", "authorised write %s#%d (ack=%v) got %d error and %d success results", wo.peer.Name, wo.ctr, wo.ack, nErr, nOK)
				}
				// one notify per current subscriber of the server feature
				for _, p := range a.pr.Peers {
					for _, e := range p.Ents {
						for _, f := range e.Feats {
							st := subscribedState(regOps, "sub", RegKey{p.Name, AddrStr(f.Address()), AddrStr(wo.dst.Address())}, d.Begin, d.End)
							n := 0
							for _, s := range p.Conn.Out {
								if s.OpSeq == d.Pre && Classifier(s) == "notify" && s.D != nil && AddrStr(s.D.Header.AddressDestination) == AddrStr(f.Address()) &&
									AddrStr(s.D.Header.AddressSource) == AddrStr(wo.dst.F.Address()) {
									n++
								}
							}
							if st == 1 && n != 1 {
								w.Violate(prop+"/write-fanout-"+countWord(n), "authorised write %s#%d: subscriber %s got %d notifications", wo.peer.Name, wo.ctr, AddrStr(f.Address()), n)
							}
							if st == 0 && n != 0 {
								w.Violate(prop+"/write-fanout-to-non-subscriber", "authorised write %s#%d: %s got %d notifications without subscription", wo.peer.Name, wo.ctr, AddrStr(f.Address()), n)
							}
							if st == 1 && n == 1 {
								w.Probe("write-notified-subscriber")
							}
						}
					}
				}
			default:
				w.Probe("write-overlapped-registry-change")
				maxEv[k]++
				if nErr+nOK > 1 {
					w.Violate(prop+"/write-two-results", "write %s#%d got %d error and %d success results", wo.peer.Name, wo.ctr, nErr, nOK)
				}
			}
		}
	}
	// data-change events: one per authorised write
	seen := map[evKey]bool{}
	for _, wo := range a.writes {
		k := evKey{wo.peer.Conn.Ski, wo.dst, wo.fn.Fn}
		if seen[k] {
			continue
		}
		seen[k] = true
		n := writeEvents(ev, k.ski, wo.dst.F, wo.fn.Fn)
		if n < minEv[k] || n > maxEv[k] {
			w.Violate(prop+"/write-data-change-events", "%d data-change(write) events for %s/%s from %s, expected between %d and %d", n, AddrStr(wo.dst.Address()), wo.fn.Fn, wo.peer.Name, minEv[k], maxEv[k])
		}
	}
}

type c03Data struct {
	a    *actor
	ev   *EventLog
	dops []*dataOp
}

func init() {
	Register(&Scenario{
		Prop: "C03", Name: "write-authorisation",
		NonTrivial: []string{"write-authorised"},
		Build: func(w *World) {
			pr := BuildProto(w, ProtoOpt{Peers: 2 + w.T.Choose(2, "peers"), MinServers: 2, SecondEntity: w.T.Bool(1, 2, "two-entities"),
				ServerTypes: []model.FeatureTypeType{model.FeatureTypeTypeLoadControl, model.FeatureTypeTypeDeviceConfiguration, model.FeatureTypeTypeSetpoint, model.FeatureTypeTypeMeasurement}})
			pr.L.QuiesceOwnTraffic = true
			a := &actor{w: w, pr: pr, binds: &regScript{w: w, pr: pr, kind: "bind"}, subs: &regScript{w: w, pr: pr, kind: "sub"}}
			d := &c03Data{a: a, ev: w.CollectEvents()}
			w.EnableFaults("conn.drop", "peer.entity_remove", "net.dup")
			for _, p := range pr.Peers {
				p := p
				a.hookSnapshots(p)
				w.Go("script:"+p.Name, func() { a.run(p, 4+w.T.Choose(10, "nops")) })
			}
			if w.T.Bool(1, 3, "local-data-task") {
				dataTask(w, "data0", pr.Servers, 1+w.T.Choose(3, "ndata"), &d.dops, nil)
			}
			w.scData = d
		},
		Check: func(w *World) {
			d := w.scData.(*c03Data)
			ops := d.a.binds.collect("C03")
			ops = append(ops, d.a.subs.collect("C03")...)
			ops = append(ops, d.a.finishExtra()...)
			d.a.checkWrites("C03", d.ev, ops, d.dops)
			w.State(fmt.Sprint(len(ops), len(d.a.writes)))
		},
	})
}
