package harness

import (
	"fmt"
	"strings"
	"time"

	"github.com/enbility/spine-go/api"
	"github.com/enbility/spine-go/model"
	"github.com/enbility/spine-go/util"

	"verifsim/simrt"
)

// C12, variant "approval-across-reconnect": a write is still pending when its connection is
// removed; the peer comes back on the same SKI as a restarted device does - its message
// counters begin again - and sends another write, which therefore carries the counter of the
// abandoned one. The new write gets exactly one outcome, decided by its own verdicts and its own
// deadline, whatever is left of the old one (fault kinds: conn.drop, conn.restart, peer.restart).

type c12rWrite struct {
	name      string
	canon     string
	ctr       uint64
	gen       int
	presented int
	verdictAt time.Duration // when the application answers (absolute simulated time), 0 = never
	// the approval timer is armed while the write is handled: between t0 and t1 (the clock may
	// move while the handling is stalled), so the deadline lies in [t0+timeout, t1+timeout]
	t0, t1   time.Duration
	deadline time.Duration // t1 + timeout (latest)
	handled  time.Duration
	// when the verdicts were really given (the application's goroutines may be stalled)
	firstInvoke, lastInvoke, lastReturn time.Duration
	nVerdicts                           int
	lastInvokeSeq                       uint64
	// the approval timer armed while this write was handled, and when its callback had finished
	timer    *simrt.Task
	timerEnd uint64
}

type c12rData struct {
	p                 *Peer
	sf                *LFeat
	ev                *EventLog
	ncb               int
	timeout           time.Duration
	w1, w2            *c12rWrite
	dropCall, dropRet uint64
	cur               *c12rWrite // the write being handled right now
}

func init() {
	Register(&Scenario{
		Prop: "C12", Name: "approval-across-reconnect", DeadlockDirected: true, Weight: 1,
		NonTrivial: []string{"c12r-second-write-decided"},
		Build: func(w *World) {
			pr := BuildProto(w, ProtoOpt{Peers: 1, MinServers: 1, ServerTypes: []model.FeatureTypeType{model.FeatureTypeTypeLoadControl}})
			p := pr.Peers[0]
			sf := pr.Servers[0]
			d := &c12rData{p: p, sf: sf, ev: w.CollectEvents(), ncb: 1 + w.T.Choose(2, "callbacks")}
			w.scData = d
			d.timeout = []time.Duration{time.Second, 4 * time.Second}[w.T.Choose(2, "timeout")]
			sf.F.SetWriteApprovalTimeout(d.timeout)
			fn := sf.Funcs[0]
			info := fnByName[fn.Fn]
			mk := func(name string) (*c12rWrite, model.CmdType) {
				data := w.GenSimpleList(info, 1)
				w.ForceUnique(info, data)
				cmd := model.CmdType{}
				SetCmdData(&cmd, fn.Fn, data)
				return &c12rWrite{name: name, canon: CanonAny(data)}, cmd
			}
			var cmd1, cmd2 model.CmdType
			d.w1, cmd1 = mk("W1")
			d.w2, cmd2 = mk("W2")
			// when the connection is removed (after W1 was handled) and when W2's verdicts come,
			// relative to the old and to the new deadline
			// (6/4: the first write has timed out before its connection goes away)
			dropAfter := d.timeout * time.Duration([]int{1, 2, 3, 6}[w.T.Choose(4, "drop-after-quarters")]) / 4
			// with two callbacks: only the first one approves the first write (at once) / the
			// second write - a write approved by some callbacks only times out
			w1Partial := d.ncb == 2 && w.T.Bool(1, 3, "first-write-partly-approved")
			w2Partial := d.ncb == 2 && w.T.Bool(1, 3, "second-write-partly-approved")
			verdictCase := w.T.Choose(6, "verdict-case")
			w1Answers := w.T.Bool(1, 4, "first-write-answered-late")
			for cb := 0; cb < d.ncb; cb++ {
				cb := cb
				_ = sf.F.AddWriteApprovalCallback(func(msg *api.Message) {
					var x *c12rWrite
					if _, cv := cmdFunction(msg.Cmd); cv != nil {
						c := CanonAny(cv)
						for _, y := range []*c12rWrite{d.w1, d.w2} {
							if y.canon == c {
								x = y
							}
						}
					}
					if x == nil {
						w.Violate("C12/unknown-write-presented", "callback %d was given a write the peer did not send", cb)
						return
					}
					if cb == 0 {
						x.presented++
					}
					w.Logf("presented %s to callback %d", x.name, cb)
					if x == d.w1 {
						if w1Partial {
							if cb == 0 {
								sf.F.ApproveOrDenyWrite(msg, model.ErrorType{})
								w.Probe("c12r-first-write-partly-approved")
							}
							return
						}
						// the first write is abandoned; sometimes the application answers it much later
						// (after its connection is gone): that must not count for anything
						if w1Answers {
							w.Sleep(d.timeout * 3)
							sf.F.ApproveOrDenyWrite(msg, model.ErrorType{})
							w.Fault("app.late")
						} else {
							w.Fault("app.silent")
						}
						return
					}
					if w2Partial && cb == 1 {
						w.Fault("app.silent")
						w.Probe("c12r-second-write-partly-approved")
						return
					}
					simrt.WaitUntil("verdict-time", func() bool { return x.verdictAt != 0 })
					if wait := x.verdictAt - w.Now(); wait > 0 {
						w.Sleep(wait)
					}
					x.lastInvokeSeq = w.Logf("verdict approve for %s by callback %d", x.name, cb)
					now := w.Now()
					if x.nVerdicts == 0 || now < x.firstInvoke {
						x.firstInvoke = now
					}
					if now > x.lastInvoke {
						x.lastInvoke = now
					}
					sf.F.ApproveOrDenyWrite(msg, model.ErrorType{})
					if now = w.Now(); now > x.lastReturn {
						x.lastReturn = now
					}
					x.nVerdicts++
				})
			}
			stamp := func() {
				p.Conn.BeforeDeliver = func(del *Delivery) {
					for _, x := range []*c12rWrite{d.w1, d.w2} {
						if del.D != nil && len(del.D.Payload.Cmd) > 0 && x.t0 == 0 {
							if _, cv := cmdFunction(del.D.Payload.Cmd[0]); cv != nil && CanonAny(cv) == x.canon {
								x.t0 = w.Now() + 1
								d.cur = x
							}
						}
					}
				}
				p.Conn.AfterDeliver = func(del *Delivery) {
					for _, x := range []*c12rWrite{d.w1, d.w2} {
						if x.t0 != 0 && x.t1 == 0 {
							x.t1 = w.Now() + 1
						}
					}
					d.cur = nil
				}
			}
			stamp()
			w.SpawnHook = func(t *simrt.Task) {
				if t.Kind == "timer" && d.cur != nil && d.cur.timer == nil {
					d.cur.timer = t
				}
			}
			w.StepCheck = func() {
				for _, x := range []*c12rWrite{d.w1, d.w2} {
					if x.timer != nil && x.timerEnd == 0 && x.timer.Done() {
						x.timerEnd = w.Seq
					}
				}
			}
			w.Go("script:"+p.Name, func() {
				p.AwaitDiscovery()
				cf := (&actor{w: w, pr: pr}).clientFor(p, sf)
				p.Await(p.SendBind(cf, sf.Address(), sf.Type, false, "bind"))
				d.w1.ctr = p.SendCmd(cf.Address(), sf.Address(), model.CmdClassifierTypeWrite, util.Ptr(true), cmd1, "write-W1")
				p.Await(d.w1.ctr)
				d.w1.handled = w.Now()
				d.w1.deadline = d.w1.t1 + d.timeout
				w.Sleep(dropAfter)
				// the connection goes away with W1 pending; the device comes back restarted
				call := w.Logf("fault conn.drop %s", p.Name)
				simrt.Self().OpSeq = call
				d.dropCall = call
				pr.L.Disconnect(p.Name)
				d.dropRet = w.Stamp()
				w.Fault("conn.drop")
				w.Fault("conn.restart")
				w.Fault("peer.restart")
				p.ctr = 0
				p.Connect()
				stamp()
				p.AwaitDiscovery()
				p.Await(p.SendBind(cf, sf.Address(), sf.Type, false, "bind-again"))
				d.w2.gen = p.Conn.Gen
				d.w2.ctr = p.SendCmd(cf.Address(), sf.Address(), model.CmdClassifierTypeWrite, util.Ptr(true), cmd2, "write-W2")
				if d.w2.ctr == d.w1.ctr {
					w.Probe("c12r-same-counter-as-abandoned-write")
				}
				p.Await(d.w2.ctr)
				d.w2.handled = w.Now()
				d.w2.deadline = d.w2.t1 + d.timeout
				margin := 20 * time.Millisecond
				switch verdictCase {
				case 0:
					d.w2.verdictAt = w.Now() + time.Millisecond
				case 1:
					d.w2.verdictAt = d.w1.deadline - margin
				case 2:
					d.w2.verdictAt = d.w1.deadline + margin
				case 3:
					d.w2.verdictAt = (d.w1.deadline + d.w2.deadline) / 2
				case 4:
					d.w2.verdictAt = d.w2.deadline - margin
				default:
					d.w2.verdictAt = d.w2.deadline + margin
				}
				if d.w2.verdictAt <= w.Now() {
					d.w2.verdictAt = w.Now() + time.Millisecond
				}
				// stay until everything is decided
				w.Sleep(d.w2.deadline + d.timeout - w.Now())
			})
		},
		Check: func(w *World) {
			d := w.scData.(*c12rData)
			x := d.w2
			if x.handled == 0 {
				return
			}
			w.Probe("c12r-second-write-decided")
			if x.presented != 1 {
				w.Violate("C12/presented-"+countWord(x.presented), "write W2 was presented %d times to a callback", x.presented)
			}
			nOK, nErr, stale := 0, 0, 0
			for _, s := range d.p.Conn.Out {
				isRes, e := IsResult(s)
				if !isRes || s.D.Header.MsgCounterReference == nil || uint64(*s.D.Header.MsgCounterReference) != x.ctr {
					continue
				}
				if s.Gen != x.gen {
					// a result on the removed connection by something that began after the removal had
					// returned, or by a timer that the removal knew (armed before it began) and that
					// fired after it had returned; what was already under way is in flight
					isTimer := strings.HasPrefix(s.Task, "timer:")
					if s.Seq > d.dropRet && ((!isTimer && s.OpSeq > d.dropRet) || (isTimer && s.ArmSeq < d.dropCall && s.OpSeq > d.dropRet)) {
						stale++
					}
					continue
				}
				if e == 0 {
					nOK++
				} else {
					nErr++
				}
			}
			applied := 0
			for _, e := range d.ev.Ev {
				if e.P.EventType == api.EventTypeDataChange && e.P.CmdClassifier != nil && *e.P.CmdClassifier == model.CmdClassifierTypeWrite &&
					e.P.LocalFeature == d.sf.F && CanonAny(e.P.Data) == x.canon {
					applied++
				}
			}
			desc := fmt.Sprintf("W1 (ctr %d) handled during [%v,%v], abandoned by the removal; W2 (ctr %d) handled during [%v,%v], timeout %v, %d of %d callback(s) approved during [%v,%v]: %d success result(s), %d error result(s), applied %d time(s), %d result(s) on the removed connection",
				d.w1.ctr, d.w1.t0, d.w1.t1, x.ctr, x.t0, x.t1, d.timeout, x.nVerdicts, d.ncb, x.firstInvoke, x.lastReturn, nOK, nErr, applied, stale)
			if stale > 0 {
				w.Violate("C12/outcome-of-abandoned-write-after-removal", "%s", desc)
			}
			if nOK+nErr != 1 {
				w.Violate("C12/reconnect/"+countWord(nOK+nErr)+"-outcomes", "%s", desc)
				return
			}
			tol := 5 * time.Millisecond
			switch {
			case x.nVerdicts == d.ncb && x.lastReturn < x.t0+d.timeout-tol:
				if nOK != 1 || applied != 1 {
					w.Violate("C12/reconnect/unanimous-approval-not-applied", "%s", desc)
				}
				w.Probe("c12r-expect-applied")
			case x.nVerdicts < d.ncb:
				// approved by some of the callbacks only (whatever an earlier write under the same
				// counter had collected)
				if nErr != 1 || applied != 0 {
					w.Violate("C12/reconnect/partly-approved-write-applied", "%s", desc)
				}
				w.Probe("c12r-expect-timeout")
			case (x.lastInvoke > x.t1+d.timeout+tol && x.timer != nil && x.timerEnd != 0 && x.timerEnd < x.lastInvokeSeq):
				// (the timeout counts once its callback has run: a timer that is due but whose
				// goroutine is stalled has not decided anything yet)
				if nErr != 1 || applied != 0 {
					w.Violate("C12/reconnect/late-approval-applied", "%s", desc)
				}
				w.Probe("c12r-expect-timeout")
			}
			if (nOK == 1) != (applied == 1) {
				w.Violate("C12/reconnect/result-and-data-disagree", "%s", desc)
			}
			w.State(fmt.Sprint(nOK, nErr, applied))
		},
	})
}
