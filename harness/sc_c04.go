package harness

import (
	"fmt"
	"reflect"
	"time"

	"github.com/enbility/spine-go/model"
	"github.com/enbility/spine-go/util"

	"verifsim/simrt"
)

// C04 — write-protected elements stay untouched and remote writes are all-or-nothing
// (DESIGN Appendix A.2).

var c04Functions = []model.FunctionType{model.FunctionTypeLoadControlLimitListData, model.FunctionTypeSetpointListData, model.FunctionTypeDeviceConfigurationKeyValueListData}

// changeable: the writecheck field is present and true.
//
//go:norace
func (it absItem) changeable(info FnInfo) bool {
	wc := shapeOf(info.ItemType).WC
	if wc == nil {
		return true
	}
	return it[wc.Name] == "true"
}

// addressed returns the identifiers of the stored elements a write addresses (A.2).
//
//go:norace
func addressedIDs(info FnInfo, before absList, u absUpdate) (map[string]bool, bool) {
	keys := shapeOf(info.ItemType).Keys
	ids := map[string]bool{}
	all := func() {
		for _, it := range before {
			if id, ok := it.identifier(keys); ok {
				ids[id] = true
			}
		}
	}
	whole := false
	if !u.hasPartial && !u.hasDelete {
		all()
		whole = true
	}
	if u.hasDelete {
		if u.deleteSel != nil {
			for _, it := range before {
				if it.matches(u.deleteSel) {
					if id, ok := it.identifier(keys); ok {
						ids[id] = true
					}
				}
			}
		} else if len(u.deleteElems) > 0 {
			all()
			whole = true
		}
	}
	if u.hasPartial || (u.hasDelete && len(u.data) > 0) {
		switch {
		case u.partialSel != nil:
			for _, it := range before {
				if it.matches(u.partialSel) {
					if id, ok := it.identifier(keys); ok {
						ids[id] = true
					}
					break
				}
			}
		default:
			for _, d := range u.data {
				if id, ok := d.identifier(keys); ok {
					ids[id] = true
				} else {
					all()
					whole = true
				}
			}
		}
	}
	return ids, whole
}

type c04Data struct{}

func init() {
	Register(&Scenario{
		Prop: "C04", Name: "protected-elements",
		NonTrivial: []string{"c04-write-checked"},
		Build: func(w *World) {
			w.scData = &c04Data{}
			info := fnByName[c04Functions[w.T.Choose(len(c04Functions), "function")]]
			ft := featureTypeOf(info.Fn)
			w.Probe("c04-fn-" + string(info.Fn))
			L := w.NewNode("L", "d:_i:L", model.NetworkManagementFeatureSetTypeSmart)
			le := L.NewLocalEntity([]uint{1}, model.EntityTypeTypeCEM, 4*time.Second)
			srv := le.AddFeature(ft, model.RoleTypeServer, PFunc{info.Fn, true, true})
			L.AddEntity(le)
			// the twin: the same feature on a second entity, for the metamorphic check
			le2 := L.NewLocalEntity([]uint{2}, model.EntityTypeTypeCEM, 4*time.Second)
			twin := le2.AddFeature(ft, model.RoleTypeServer, PFunc{info.Fn, true, true})
			L.AddEntity(le2)
			p := w.NewPeer("P1", "d:_i:P1", L)
			pe := p.AddEntity([]uint{1}, model.EntityTypeTypeEVSE, "")
			cf := pe.AddFeature(1, ft, model.RoleTypeClient)
			cf2 := pe.AddFeature(2, ft, model.RoleTypeClient)
			p.Connect()
			flags := func() *bool {
				switch w.T.Choose(3, "flag") {
				case 0:
					return util.Ptr(true)
				case 1:
					return util.Ptr(false)
				}
				return nil
			}
			write := func(f *LFeat, src *PFeat, u *genUpd) (ok bool, answered bool) {
				ctr := p.SendCmd(src.Address(), f.Address(), model.CmdClassifierTypeWrite, util.Ptr(true), u.cmdFor(info), "write:"+u.shape)
				p.Await(ctr)
				for _, s := range p.Responses(ctr) {
					if isRes, e := IsResult(s); isRes {
						return e == 0, true
					}
				}
				return false, false
			}
			w.Go("history", func() {
				p.AwaitDiscovery()
				p.Await(p.SendBind(cf, srv.Address(), ft, false, "bind"))
				p.Await(p.SendBind(cf2, twin.Address(), ft, false, "bind-twin"))
				keys := shapeOf(info.ItemType).Keys
				n := 2 + w.T.Choose(6, "nwrites")
				for i := 0; i < n; i++ {
					// (re)initialise the stored list locally: a mix of changeable, unchangeable and flag-less elements
					if i == 0 || w.T.Bool(1, 2, "reinit") {
						items := genItems(w, info, 2+w.T.Choose(3, "ninit"), 3, 4, flags)
						if w.T.Bool(1, 4, "stored-element-without-identifier") {
							// identifiers are optional: an element without one is addressed by no selector
							// and by no identifier
							items = append([]reflect.Value{w.GenItem(info.ItemType, nil, 3, 4, flags())}, items...)
							w.Probe("c04-stored-element-without-identifier")
						}
						init := GenList(info, items)
						srv.F.SetData(info.Fn, init)
					}
					before := absOf(info, srv.F.DataCopy(info.Fn))
					u := genUpdate(w, info, before, func() *bool {
						// written items mostly do not carry the flag; sometimes they try to change it
						if w.T.Bool(1, 4, "write-flag") {
							return util.Ptr(w.T.Bool(1, 2, "flag-value"))
						}
						return nil
					})
					if u == nil || u.shape == "full-without-identifiers" {
						continue // (filter-less writes: see the known findings; one shape of them is enough)
					}
					w.Logf("write %d %s", i, u.shape)
					ok, answered := write(srv, cf, u)
					after := absOf(info, srv.F.DataCopy(info.Fn))
					w.Probe("c04-write-checked")
					w.Probe("c04-shape-" + u.shape)
					if !answered {
						w.Violate("C04/write-not-answered/"+u.shape, "write %s got no result", u.shape)
						continue
					}
					detail := fmt.Sprintf("write %s of %s\ndata %s\nbefore:\n%s\nafter (result ok=%v):\n%s", u.shape, info.Fn, u.abs.data.canon(), before.canon(), ok, after.canon())
					// (1) elements that are not changeable are untouched, no flag changes
					byID := map[string]absItem{}
					for _, it := range after {
						if id, k := it.identifier(keys); k {
							byID[id] = it
						}
					}
					wc := shapeOf(info.ItemType).WC
					for _, it := range before {
						id, hasID := it.identifier(keys)
						if !hasID {
							// an element without identifier: found again by its content
							if !it.changeable(info) {
								found := false
								for _, a := range after {
									if a.String() == it.String() {
										found = true
									}
								}
								if !found {
									w.Violate("C04/protected-element-modified/"+u.shape, "%s", detail)
								}
							}
							continue
						}
						a, present := byID[id]
						if !it.changeable(info) {
							if !present {
								w.Violate("C04/protected-element-deleted/"+u.shape, "%s", detail)
							} else if a.String() != it.String() {
								w.Violate("C04/protected-element-modified/"+u.shape, "%s", detail)
							}
							w.Probe("c04-protected-element-present")
						} else if present && wc != nil && a[wc.Name] != it[wc.Name] {
							w.Violate("C04/changeability-flag-altered/"+u.shape, "%s", detail)
						}
					}
					// (2) an error leaves everything as it was
					if !ok && after.canon() != before.canon() {
						w.Violate("C04/rejected-write-changed-data/"+u.shape, "%s", detail)
					}
					// (3) success: all changes of the write are visible
					if ok {
						// (a write cannot change flags, see (1); a flag value carried by the written items
						// is therefore not one of "its changes" - clients echo the flag they read)
						ua := u.abs
						if wc != nil && (ua.hasPartial || ua.hasDelete) {
							ua.data = ua.data.clone()
							for _, it := range ua.data {
								delete(it, wc.Name)
							}
						}
						want := absFold(info, before, ua)
						if want.canon() != after.canon() {
							w.Violate("C04/accepted-write-not-fully-applied/"+u.shape, "%s\nthe write describes:\n%s", detail, want.canon())
						}
						w.Probe("c04-write-accepted")
					} else {
						w.Probe("c04-write-rejected")
					}
					// (4) the verdict depends on the addressed elements only: same write against a twin
					// list that holds just the addressed elements
					ids, whole := addressedIDs(info, before, u.abs)
					if !whole && len(ids) < len(before) {
						var twinItems []reflect.Value
						cur := srv.F.DataCopy(info.Fn)
						_ = cur
						// rebuild the stored list (state before the write) restricted to the addressed ids
						var restricted absList
						for _, it := range before {
							if id, k := it.identifier(keys); k && ids[id] {
								restricted = append(restricted, it)
							}
						}
						_ = twinItems
						tw := absToData(info, restricted)
						twin.F.SetData(info.Fn, tw)
						okTwin, ansTwin := write(twin, cf2, u)
						if ansTwin && okTwin != ok {
							w.Violate("C04/unaddressed-elements-influence-verdict/"+u.shape, "%s\nthe same write against a list holding only the addressed elements\n%s\nwas answered ok=%v", detail, restricted.canon(), okTwin)
						}
						w.Probe("c04-twin-checked")
					}
					// undo accepted changes of the original for the next round if nothing is re-initialised
					_ = simrt.Self
				}
			})
		},
		Check: func(w *World) {},
	})
}

// absToData rebuilds concrete function data from an abstract list (JSON round trip).
//
//go:norace
func absToData(info FnInfo, l absList) any {
	d := reflect.New(info.DataType)
	sl := reflect.MakeSlice(info.DataType.Field(info.ListFld).Type, 0, len(l))
	for _, it := range l {
		item := reflect.New(info.ItemType)
		for name, js := range it {
			f := item.Elem().FieldByName(name)
			if !f.IsValid() {
				continue
			}
			v := reflect.New(f.Type())
			if err := jsonUnmarshal([]byte(js), v.Interface()); err == nil {
				f.Set(v.Elem())
			}
		}
		sl = reflect.Append(sl, item.Elem())
	}
	d.Elem().Field(info.ListFld).Set(sl)
	return d.Interface()
}
