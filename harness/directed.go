package harness

import (
	"math/rand/v2"
	"time"

	"verifsim/simrt"
)

// Deadlock-directed re-execution (phase 2 of the search described in simrt/lockorder.go).
//
// A run in which two tasks took two locks in opposite orders (a candidate, found without any
// particular interleaving) is executed again with the same workload decisions - the task
// streams of the tape are replayed - and a scheduler that holds back a task that is about to
// make the second acquisition of the candidate until the other task has made its first one.
// If the candidate is real the modelled locks end in a state with blocked tasks and nothing
// enabled, which CheckNoDeadlock reports; if not, nothing is reported.
//
// The directed scheduler writes its decisions to the tape in the form the ordinary
// random-walk policy reads (Tape.Force, strategy fixed to random walk through
// Tape.Override), so the resulting tape is an ordinary replay file: it is minimised and
// verified in a fresh process like any other, with no directed machinery involved.

type directedCfg struct {
	cyc      simrt.LockCycle
	rng      *rand.Rand
	released map[int]bool
	idleAdv  int
	// pre: every other attempt also holds a task back *before* its first acquisition of the
	// candidate (at H1 / H2) until the other task has arrived at its own: a task that needs the
	// other one's first lock for a moment on its way (RemoveRemoteDevice takes the device lock
	// before it gets to the registry clean-up) would otherwise never get there while the first one
	// is parked holding it (seed C17-h)
	pre         bool
	preReleased map[int]bool
}

func newDirected(c simrt.LockCycle, seed uint64) *directedCfg {
	return &directedCfg{cyc: c, rng: rand.New(rand.NewPCG(seed, fnv64(c.Key()))), released: map[int]bool{}, pre: seed%2 == 1, preReleased: map[int]bool{}}
}

// directedOverride: the build-stream draws a directed run fixes.
func directedOverride() map[string]uint32 {
	return map[string]uint32{"strategy": stratWalk, "advance-rate": 3}
}

//go:norace
func (d *directedCfg) holdsBack(s *simrt.Sched, t *simrt.Task) bool { return d.phase(s, t) != 0 }

// phase: 2 = t is about to make the second acquisition of the candidate, 1 = (pre) the first one
//
//go:norace
func (d *directedCfg) phase(s *simrt.Sched, t *simrt.Task) int {
	if d.released[t.ID] {
		return 0
	}
	if site, held, ok := s.LockIntent(t); ok {
		for _, h := range held {
			if (site == d.cyc.S1 && h == d.cyc.H1) || (site == d.cyc.S2 && h == d.cyc.H2) {
				return 2
			}
		}
	}
	if d.pre && !d.preReleased[t.ID] {
		if site, ok := s.LockSite(t); ok && (site == d.cyc.H1 || site == d.cyc.H2) {
			return 1
		}
	}
	return 0
}

// directedPick chooses the next task (or advances the clock) and records the decision in the
// form of the random-walk policy.
//
//go:norace
func (w *World) directedPick(en []*simrt.Task, cur *simrt.Task, at time.Time, adv bool) (*simrt.Task, bool) {
	d := w.dir
	var cands, paused []*simrt.Task
	for _, t := range en {
		if d.holdsBack(w.S, t) {
			paused = append(paused, t)
		} else {
			cands = append(cands, t)
		}
	}
	if adv && w.advNum > 0 {
		// let time pass while only held-back tasks could run (the counterpart may sleep)
		if len(cands) == 0 && len(paused) == 1 && d.idleAdv < 40 {
			d.idleAdv++
			w.T.Force(64, 1, "advance?")
			w.advanceTo(at, "while-busy")
			w.Probe("clock-advanced-while-tasks-enabled")
			w.Fault("task.stall")
			return nil, true
		}
		w.T.Force(64, 0, "advance?")
	}
	if len(cands) == 0 {
		// everything that can run is held back: let go (if the candidate is real, each of the
		// tasks now blocks on the lock the other one holds)
		for _, t := range paused {
			if d.phase(w.S, t) == 1 {
				d.preReleased[t.ID] = true
			} else {
				d.released[t.ID] = true
			}
		}
		if len(paused) > 1 {
			w.Probe("directed-both-sides-held-back")
		}
		cands = en
	}
	var pick *simrt.Task
	curOK := false
	for _, t := range cands {
		if t == cur {
			curOK = true
		}
	}
	if curOK && d.rng.IntN(4) != 0 {
		pick = cur
	} else {
		pick = cands[d.rng.IntN(len(cands))]
	}
	opts := en
	if cur != nil {
		opts = append([]*simrt.Task{cur}, without(en, cur)...)
	}
	for i, t := range opts {
		if t == pick {
			w.T.Force(len(opts), i, "walk")
		}
	}
	return pick, false
}
