package harness

import (
	"encoding/json"
	"runtime"
)

func runtimeStack(buf []byte) int { return runtime.Stack(buf, false) }

func goVersion() string { return runtime.Version() }

// corrupt is replaced by the C05 machinery (mutate.go); kept here as the default no-op.
var corrupt = func(w *World, raw []byte) ([]byte, string) { return nil, "" }

func jsonUnmarshal(b []byte, v any) error { return json.Unmarshal(b, v) }
