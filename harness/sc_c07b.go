package harness

import (
	"fmt"
	"strings"
	"time"

	"github.com/enbility/spine-go/model"

	"verifsim/simrt"
)

// C07 (announcement part) — the local device tree is announced faithfully.

type c07Snap struct {
	seq  uint64
	tree string
}

type c07Op struct {
	kind   string // add-entity | remove-entity
	ent    *LEnt
	invoke uint64
	ret    uint64
	task   string
	tree   string // expected description of the entity in the notification (add)
}

type c07bData struct {
	L      *Node
	subbed *Peer
	other  *Peer
	snaps  []c07Snap
	ops    []*c07Op
	reads  []struct {
		p   *Peer
		ctr uint64
	}
}

//go:norace
func (d *c07bData) snap(w *World) {
	d.snaps = append(d.snaps, c07Snap{w.Stamp(), TreeOfLocalModel(d.L)})
}

// genLocalEntity prepares (does not announce) a local entity with random features.
//
//go:norace
func c07GenLocalEntity(w *World, n *Node, addr []uint) *LEnt {
	le := n.NewLocalEntity(addr, []model.EntityTypeType{model.EntityTypeTypeCEM, model.EntityTypeTypeEVSE, model.EntityTypeTypeHeatPumpAppliance}[w.T.Choose(3, "etype")], 4*time.Second)
	nf := 1 + w.T.Choose(3, "nfeat")
	used := map[string]bool{}
	for i := 0; i < nf; i++ {
		pe := serverPalette[w.T.Choose(len(serverPalette), "ftype")]
		role := model.RoleTypeServer
		if w.T.Bool(1, 3, "client") {
			role = model.RoleTypeClient
		}
		k := string(pe.Type) + string(role)
		if used[k] {
			continue
		}
		used[k] = true
		var fns []PFunc
		for _, f := range pe.Funcs {
			if f.Fn == model.FunctionTypeDeviceDiagnosisHeartbeatData {
				continue
			}
			if w.T.Bool(2, 3, "fn") {
				fns = append(fns, PFunc{f.Fn, w.T.Bool(3, 4, "r"), w.T.Bool(1, 3, "w")})
			}
		}
		le.AddFeature(pe.Type, role, fns...)
	}
	return le
}

func init() {
	Register(&Scenario{
		Prop: "C07", Name: "announce-local-tree",
		NonTrivial: []string{"c07-discovery-reply-checked"},
		Weight:     2,
		Build: func(w *World) {
			d := &c07bData{}
			w.scData = d
			L := w.NewNode("L", "d:_i:L", model.NetworkManagementFeatureSetTypeSmart)
			d.L = L
			L.AddEntity(c07GenLocalEntity(w, L, []uint{1}))
			d.subbed = w.NewPeer("P1", "d:_i:P1", L)
			d.other = w.NewPeer("P2", "d:_i:P2", L)
			// what real devices do: the subscription call of P1's node management overtakes its
			// own discovery reply (the node does not know P1's device address yet)
			early := w.T.Bool(1, 3, "subscribes-before-answering-discovery")
			d.subbed.AutoDD = !early
			for _, p := range []*Peer{d.subbed, d.other} {
				stdPeerTree(p, false)
				p.Connect()
			}
			w.EnableFaults("net.dup")
			d.snap(w)
			ready := false
			w.Go("setup", func() {
				nmT := model.FeatureTypeTypeNodeManagement
				if early {
					w.Fault("net.reorder")
					w.Probe("c07-subscription-before-discovery-reply")
				} else {
					d.subbed.AwaitDiscovery()
				}
				// P1's node management subscribes to ours
				c := d.subbed.SendSubscribe(d.subbed.NM(), d.subbed.LocalNM(), nmT, false, "sub-nm")
				d.subbed.Await(c)
				if !okResult(d.subbed, c) {
					w.Violate("C07/node-management-subscription-refused", "a node management subscription was refused")
				}
				d.other.AwaitDiscovery()
				if w.T.Bool(1, 2, "other-subscribes-and-unsubscribes") {
					// the other peer's node management subscribes, too, and takes its own subscription
					// back: it is told nothing from then on, and nobody else's subscription is touched
					o := d.other
					o.Await(o.SendSubscribe(o.NM(), o.LocalNM(), nmT, false, "sub-nm-other"))
					o.Await(o.SendUnsubscribe(o.NM().Address(), o.LocalNM(), "unsub-nm-other"))
					w.Probe("c07-other-peer-unsubscribed")
				}
				if early {
					d.subbed.AutoDD = true
					d.subbed.AnswerHeldDiscovery()
					d.subbed.AwaitDiscovery()
				} else if w.T.Bool(1, 3, "discovery-reply-repeated") {
					// the subscriber's discovery reply arrives once more (a retry): the node applies it
					// again and rebuilds its view of the subscriber's features
					d.subbed.AnswerHeldDiscovery()
					simrt.WaitUntil("conn-idle", func() bool { return len(d.subbed.Conn.Queue) == 0 && !d.subbed.Conn.Handling })
					w.Probe("c07-discovery-reply-repeated")
				}
				if w.T.Bool(1, 2, "subscribes-again") {
					// the subscriber repeats its request (it may not have seen the result): whether
					// that is refused as a duplicate or accepted, it is subscribed once
					s := d.subbed
					s.Await(s.SendSubscribe(s.NM(), s.LocalNM(), nmT, false, "sub-nm-again"))
					w.Probe("c07-subscription-repeated")
				}
				ready = true
			})
			w.Go("app", func() {
				simrt.WaitUntil("ready", func() bool { return ready })
				addrs := [][]uint{{2}, {3}, {1, 1}, {2, 1}}
				n := 2 + w.T.Choose(6, "nops")
				for i := 0; i < n; i++ {
					switch k := w.T.Choose(8, "tree-op"); {
					case k < 3: // add a new entity
						a := addrs[w.T.Choose(len(addrs), "addr")]
						exists := false
						for _, e := range L.Ents {
							if eqUints(e.Addr, a) {
								exists = true
							}
						}
						if exists {
							continue
						}
						le := c07GenLocalEntity(w, L, a)
						op := &c07Op{kind: "add-entity", ent: le, task: simrt.Self().String(), tree: c07EntityTree(le, true)}
						d.ops = append(d.ops, op)
						op.invoke = w.Logf("invoke AddEntity %s", fmtUints(a))
						simrt.Self().OpSeq = op.invoke
						L.AddEntity(le)
						op.ret = w.Logf("return AddEntity")
						d.snap(w)
					case k < 5: // remove an entity
						if len(L.Ents) <= 2 {
							continue
						}
						le := L.Ents[1+w.T.Choose(len(L.Ents)-1, "victim")]
						op := &c07Op{kind: "remove-entity", ent: le, task: simrt.Self().String(), tree: c07EntityTree(le, false)}
						d.ops = append(d.ops, op)
						op.invoke = w.Logf("invoke RemoveEntity %s", fmtUints(le.Addr))
						simrt.Self().OpSeq = op.invoke
						L.RemoveEntity(le)
						op.ret = w.Logf("return RemoveEntity")
						d.snap(w)
					case k < 7: // a further feature on an announced entity
						le := L.Ents[1+w.T.Choose(len(L.Ents)-1, "entity")]
						pe := serverPalette[w.T.Choose(len(serverPalette), "ftype")]
						dup := false
						for _, f := range le.Feats {
							if f.Type == pe.Type && f.Role == model.RoleTypeServer {
								dup = true
							}
						}
						if dup || pe.Type == model.FeatureTypeTypeDeviceDiagnosis {
							continue
						}
						w.Logf("AddFeature %s on %s", pe.Type, fmtUints(le.Addr))
						f := le.E.GetOrAddFeature(pe.Type, model.RoleTypeServer)
						lf := &LFeat{Ent: le, F: f, ID: uint(*f.Address().Feature), Type: pe.Type, Role: model.RoleTypeServer, Desc: descOf(f)}
						le.Feats = append(le.Feats, lf)
						d.snap(w)
						for _, fn := range pe.Funcs {
							if w.T.Bool(2, 3, "fn") {
								pf := PFunc{fn.Fn, w.T.Bool(3, 4, "r"), w.T.Bool(1, 3, "w")}
								f.AddFunctionType(pf.Fn, pf.R, pf.W)
								lf.Funcs = append(lf.Funcs, pf)
								d.snap(w)
							}
						}
					default:
						if w.T.Bool(1, 2, "pause") {
							w.Yield("pause")
							continue
						}
						// the description of a feature of an announced entity changes (seed C07-g): later
						// replies and announcements carry the new one
						le := L.Ents[1+w.T.Choose(len(L.Ents)-1, "entity")]
						if len(le.Feats) == 0 {
							continue
						}
						lf := le.Feats[w.T.Choose(len(le.Feats), "feature")]
						desc := fmt.Sprintf("description-%d", w.Uniq())
						w.Logf("SetDescriptionString %s/%d %q", fmtUints(le.Addr), lf.ID, desc)
						lf.F.SetDescriptionString(desc)
						lf.Desc = desc
						d.snap(w)
						w.Probe("c07-description-changed")
					}
				}
			})
			for _, p := range []*Peer{d.subbed, d.other} {
				p := p
				w.Go("reads:"+p.Name, func() {
					simrt.WaitUntil("ready", func() bool { return ready })
					n := 1 + w.T.Choose(5, "nreads")
					for i := 0; i < n; i++ {
						cmd := model.CmdType{NodeManagementDetailedDiscoveryData: &model.NodeManagementDetailedDiscoveryDataType{}}
						ctr := p.SendCmd(p.NM().Address(), p.LocalNM(), model.CmdClassifierTypeRead, nil, cmd, "read-discovery")
						d.reads = append(d.reads, struct {
							p   *Peer
							ctr uint64
						}{p, ctr})
						if w.T.Bool(1, 2, "await") {
							p.Await(ctr)
						}
						for k := w.T.Choose(4, "read-gap"); k > 0; k-- {
							w.Yield("read-gap")
						}
					}
				})
			}
		},
		Settle: func(w *World) {
			d := w.scData.(*c07bData)
			for _, p := range []*Peer{d.subbed, d.other} {
				cmd := model.CmdType{NodeManagementDetailedDiscoveryData: &model.NodeManagementDetailedDiscoveryDataType{}}
				ctr := p.SendCmd(p.NM().Address(), p.LocalNM(), model.CmdClassifierTypeRead, nil, cmd, "final-read-discovery")
				d.reads = append(d.reads, struct {
					p   *Peer
					ctr uint64
				}{p, ctr})
			}
		},
		Check: func(w *World) {
			d := w.scData.(*c07bData)
			L := d.L
			// 1. discovery replies
			for _, r := range d.reads {
				for _, del := range r.p.DeliveriesOf(r.ctr) {
					if !del.Done {
						continue
					}
					n := 0
					for _, s := range r.p.RespDuring(del) {
						if Classifier(s) != "reply" || s.D.Payload.Cmd[0].NodeManagementDetailedDiscoveryData == nil {
							continue
						}
						n++
						got := TreeOfDiscoveryData(s.D.Payload.Cmd[0].NodeManagementDetailedDiscoveryData)
						// acceptable: every snapshot from the last one before the handling began to the first one after it ended
						lo, hi := 0, len(d.snaps)-1
						for i, sn := range d.snaps {
							if sn.seq < del.Begin {
								lo = i
							}
						}
						for i := len(d.snaps) - 1; i >= 0; i-- {
							if d.snaps[i].seq > del.End {
								hi = i
							}
						}
						// the reply is assembled entity by entity while the application may be changing the
						// tree: the entity list and each entity's feature list must each be current at some
						// moment of the handling (they need not be from the same moment)
						gotEnts, gotFeats := treeParts(got)
						ok := false
						for i := lo; i <= hi && i < len(d.snaps); i++ {
							if e, _ := treeParts(d.snaps[i].tree); e == gotEnts {
								ok = true
							}
						}
						for _, el := range strings.Split(gotEnts, "\n") {
							if !strings.HasPrefix(el, "entity ") {
								continue
							}
							ent := strings.SplitN(el[len("entity "):], " ", 2)[0]
							fl := gotFeats[ent]
							fok := false
							for i := lo; i <= hi && i < len(d.snaps); i++ {
								if _, f := treeParts(d.snaps[i].tree); f[ent] == fl {
									fok = true
								}
							}
							if !fok {
								// ... and within an entity the list of features is read at one moment, the
								// information of each feature at another: the set of features (address, type,
								// role) must be the one of some moment of the handling, and so must each
								// feature's line (description, operations)
								setOK, linesOK := false, true
								for i := lo; i <= hi && i < len(d.snaps); i++ {
									if _, f := treeParts(d.snaps[i].tree); featureSet(f[ent]) == featureSet(fl) {
										setOK = true
									}
								}
								for _, line := range strings.Split(fl, "\n") {
									if line == "" {
										continue
									}
									lok := false
									for i := lo; i <= hi && i < len(d.snaps); i++ {
										if _, f := treeParts(d.snaps[i].tree); strings.Contains("\n"+f[ent], "\n"+line+"\n") {
											lok = true
										}
									}
									linesOK = linesOK && lok
								}
								fok = setOK && linesOK
								if fok {
									w.Probe("c07-reply-mixes-moments-within-an-entity")
								}
							}
							if !fok {
								ok = false
							}
						}
						if hi > lo {
							w.Probe("c07-read-overlapped-tree-change")
						}
						w.Probe("c07-discovery-reply-checked")
						if !ok {
							w.Violate("C07/discovery-reply-differs-from-local-tree", "discovery reply to %s lists\n%s\nthe application built (at that time)\n%s", r.p.Name, got, d.snaps[lo].tree)
						}
						// what a peer was told before it asked holds in the answer: an entity announced as
						// added to this peer before its read was handled is listed (unless its removal has
						// begun by then), one announced as removed is not (unless it is being added again)
						listed := map[string]bool{}
						for _, el := range strings.Split(gotEnts, "\n") {
							if strings.HasPrefix(el, "entity ") {
								listed[strings.SplitN(el[len("entity "):], " ", 2)[0]] = true
							}
						}
						for _, op := range d.ops {
							var told uint64
							for _, sn := range r.p.Conn.Out {
								if sn.OpSeq == op.invoke && sn.Task == op.task && Classifier(sn) == "notify" && sn.D != nil && sn.D.Payload.Cmd[0].NodeManagementDetailedDiscoveryData != nil {
									told = sn.Seq
								}
							}
							if told == 0 || told >= del.Begin {
								continue
							}
							ent := fmtUints(op.ent.Addr)
							superseded := false
							for _, o2 := range d.ops {
								if o2 != op && fmtUints(o2.ent.Addr) == ent && o2.invoke > op.invoke && o2.invoke < del.End {
									superseded = true
								}
							}
							if superseded {
								continue
							}
							w.Probe("c07-read-after-announcement-checked")
							if op.kind == "add-entity" && !listed[ent] {
								w.Violate("C07/announced-entity-missing-in-later-reply", "%s was told at %d that entity %s was added, its discovery read handled [%d,%d] is answered without it:\n%s", r.p.Name, told, ent, del.Begin, del.End, got)
							}
							if op.kind == "remove-entity" && listed[ent] {
								w.Violate("C07/removed-entity-listed-in-later-reply", "%s was told at %d that entity %s was removed, its discovery read handled [%d,%d] still lists it:\n%s", r.p.Name, told, ent, del.Begin, del.End, got)
							}
						}
					}
					if n != 1 {
						w.Violate("C07/discovery-read-replies", "discovery read got %d replies", n)
					}
				}
			}
			// 2. every announced feature address resolves back to that feature
			for _, e := range L.Ents {
				for _, f := range e.Feats {
					back := L.Dev.FeatureByAddress(f.Address())
					if back == nil || back.Type() != f.Type || back.Role() != f.Role {
						w.Violate("C07/address-does-not-resolve", "announced feature %s does not resolve to a %s %s feature", AddrStr(f.Address()), f.Type, f.Role)
					}
				}
			}
			// 3. one partial notification per node management subscriber and entity change, none to others
			for _, op := range d.ops {
				if op.ret == 0 {
					continue
				}
				for _, p := range []*Peer{d.subbed, d.other} {
					n := 0
					for _, s := range p.Conn.Out {
						if s.OpSeq != op.invoke || s.Task != op.task || Classifier(s) != "notify" || s.D == nil {
							continue
						}
						dd := s.D.Payload.Cmd[0].NodeManagementDetailedDiscoveryData
						if dd == nil {
							continue
						}
						n++
						if len(s.D.Payload.Cmd[0].Filter) == 0 || s.D.Payload.Cmd[0].Filter[0].CmdControl == nil || s.D.Payload.Cmd[0].Filter[0].CmdControl.Partial == nil {
							w.Violate("C07/entity-notification-not-partial", "%s notification for %s is not a partial notification", op.kind, fmtUints(op.ent.Addr))
						}
						// exactly this entity, with its features for an addition, without for a removal
						if got := TreeOfDiscoveryData(dd); got != op.tree {
							w.Violate("C07/entity-notification-content/"+op.kind, "%s notification describes\n%s\nexpected\n%s", op.kind, got, op.tree)
						}
						wantState := model.NetworkManagementStateChangeTypeAdded
						if op.kind == "remove-entity" {
							wantState = model.NetworkManagementStateChangeTypeRemoved
						}
						for _, ei := range dd.EntityInformation {
							if ei.Description == nil || ei.Description.LastStateChange == nil || *ei.Description.LastStateChange != wantState {
								w.Violate("C07/entity-notification-state/"+op.kind, "%s notification does not mark the entity as %s", op.kind, wantState)
							}
						}
					}
					if p == d.subbed && n != 1 {
						w.Violate("C07/entity-notification-"+countWord(n), "%s of %s sent %d notifications to the node management subscriber", op.kind, fmtUints(op.ent.Addr), n)
					}
					if p == d.other && n != 0 {
						w.Violate("C07/entity-notification-to-non-subscriber", "%s of %s sent %d notifications to a peer that is not subscribed", op.kind, fmtUints(op.ent.Addr), n)
					}
					w.Probe("c07-entity-notification-checked")
				}
			}
			w.State(fmt.Sprint(len(d.ops), len(d.reads)))
		},
	})
}

// c07EntityTree renders one entity of the harness's record as it has to be announced.
//
//go:norace
func c07EntityTree(e *LEnt, withFeatures bool) string {
	t := &treeCanon{}
	t.ents = append(t.ents, treeEnt{addr: fmtUints(e.Addr), typ: string(e.Type)})
	if withFeatures {
		for _, f := range e.Feats {
			tf := treeFeat{ent: fmtUints(e.Addr), id: f.ID, typ: string(f.Type), role: string(f.Role), desc: f.Desc}
			for _, fn := range f.Funcs {
				tf.ops = append(tf.ops, opStr(fn.Fn, fn.R, fn.W))
			}
			t.feats = append(t.feats, tf)
		}
	}
	return t.String()
}

// treeParts splits a canonical tree into its entity lines and, per entity, its feature lines.
//
//go:norace
func treeParts(tree string) (string, map[string]string) {
	ents := ""
	feats := map[string]string{}
	for _, l := range strings.Split(tree, "\n") {
		if strings.HasPrefix(l, "entity ") {
			ents += l + "\n"
		} else if strings.HasPrefix(l, "feature ") {
			rest := l[len("feature "):]
			if i := strings.Index(rest, "/"); i > 0 {
				feats[rest[:i]] += l + "\n"
			}
		}
	}
	return ents, feats
}

// featureSet reduces the feature lines of an entity to the identities of its features.
//
//go:norace
func featureSet(lines string) string {
	out := ""
	for _, l := range strings.Split(lines, "\n") {
		if i := strings.Index(l, " desc="); i > 0 {
			out += l[:i] + "\n"
		}
	}
	return out
}
