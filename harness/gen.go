package harness

import (
	"fmt"
	"reflect"

	"github.com/enbility/spine-go/model"
)

// Reflection-based generators for function data. Items live over a small identifier domain;
// every generated non-key string/number value is unique per run (w.uniq) so that any value
// observed later is attributable to exactly one generated update.

type fieldClass int

const (
	fcOther fieldClass = iota
	fcKey
	fcWriteCheck
	fcScalar // pointer to string/uint/int/float/bool
	fcScaled // *ScaledNumberType
	fcSlice  // list-valued element: slice of scalars or of structs with scalar members
)

type itemField struct {
	Idx   int
	Name  string
	JSON  string
	Class fieldClass
	Kind  reflect.Kind // elem kind for scalars / keys
}

type itemShape struct {
	T      reflect.Type
	Fields []itemField
	Keys   []itemField
	WC     *itemField
}

var shapeCache = map[reflect.Type]*itemShape{}

var scaledT = reflect.TypeOf(model.ScaledNumberType{})

//go:norace
func shapeOf(t reflect.Type) *itemShape {
	if s, ok := shapeCache[t]; ok {
		return s
	}
	s := &itemShape{T: t}
	for i := 0; i < t.NumField(); i++ {
		sf := t.Field(i)
		f := itemField{Idx: i, Name: sf.Name, JSON: jsonName(sf)}
		tags := model.EEBusTags(sf)
		if sf.Type.Kind() == reflect.Ptr {
			ek := sf.Type.Elem().Kind()
			f.Kind = ek
			switch {
			case sf.Type.Elem() == scaledT:
				f.Class = fcScaled
			case ek == reflect.String || ek == reflect.Uint || ek == reflect.Int || ek == reflect.Bool || ek == reflect.Float64 ||
				ek == reflect.Uint64 || ek == reflect.Int64 || ek == reflect.Uint32 || ek == reflect.Int32:
				f.Class = fcScalar
			}
			if _, ok := tags[model.EEBusTagKey]; ok {
				if ek == reflect.Uint || ek == reflect.String || ek == reflect.Struct {
					f.Class = fcKey // (structured identifiers: addresses)
				} else {
					f.Class = fcOther
				}
			}
			if _, ok := tags[model.EEBusTagWriteCheck]; ok && ek == reflect.Bool {
				f.Class = fcWriteCheck
			}
		}
		if sf.Type.Kind() == reflect.Slice && sliceElemGenerable(sf.Type.Elem()) {
			f.Class = fcSlice
		}
		s.Fields = append(s.Fields, f)
		if f.Class == fcKey {
			s.Keys = append(s.Keys, f)
		}
		if f.Class == fcWriteCheck {
			ff := f
			s.WC = &ff
		}
	}
	shapeCache[t] = s
	return s
}

func jsonName(sf reflect.StructField) string {
	tag := sf.Tag.Get("json")
	for i := 0; i < len(tag); i++ {
		if tag[i] == ',' {
			return tag[:i]
		}
	}
	if tag == "" {
		return sf.Name
	}
	return tag
}

//go:norace
func scalarKind(k reflect.Kind) bool {
	switch k {
	case reflect.String, reflect.Uint, reflect.Int, reflect.Bool, reflect.Float64, reflect.Uint64, reflect.Int64, reflect.Uint32, reflect.Int32:
		return true
	}
	return false
}

// sliceElemGenerable: scalars, or structs that have at least one pointer-to-scalar member.
//
//go:norace
func sliceElemGenerable(t reflect.Type) bool {
	if scalarKind(t.Kind()) {
		return true
	}
	if t.Kind() != reflect.Struct {
		return false
	}
	for i := 0; i < t.NumField(); i++ {
		ft := t.Field(i).Type
		if ft.Kind() == reflect.Ptr && scalarKind(ft.Elem().Kind()) {
			return true
		}
	}
	return false
}

// genSlice fills a list-valued element with one or two fresh members.
//
//go:norace
func (w *World) genSlice(fv reflect.Value) {
	n := 1 + w.T.Choose(2, "list-element-members")
	sl := reflect.MakeSlice(fv.Type(), 0, n)
	et := fv.Type().Elem()
	for i := 0; i < n; i++ {
		e := reflect.New(et).Elem()
		if scalarKind(et.Kind()) {
			w.setScalarValue(e)
		} else {
			set := false
			for j := 0; j < et.NumField(); j++ {
				ft := et.Field(j).Type
				if ft.Kind() == reflect.Ptr && scalarKind(ft.Elem().Kind()) && (!set || w.T.Bool(1, 2, "member-field")) {
					p := reflect.New(ft.Elem())
					w.setScalarValue(p.Elem())
					e.Field(j).Set(p)
					set = true
				}
			}
		}
		sl = reflect.Append(sl, e)
	}
	fv.Set(sl)
}

//go:norace
func (w *World) setScalarValue(v reflect.Value) {
	u := w.Uniq()
	switch v.Kind() {
	case reflect.String:
		v.SetString(fmt.Sprintf("v%d", u))
	case reflect.Uint, reflect.Uint64, reflect.Uint32:
		v.SetUint(uint64(1000 + u))
	case reflect.Int, reflect.Int64, reflect.Int32:
		v.SetInt(int64(1000 + u))
	case reflect.Float64:
		v.SetFloat(float64(1000 + u))
	case reflect.Bool:
		v.SetBool(u%2 == 0)
	}
}

// hasStructKey reports whether the item type has a key field we cannot generate.
//
//go:norace
func (s *itemShape) hasStructKey() bool {
	for i := 0; i < s.T.NumField(); i++ {
		sf := s.T.Field(i)
		if _, ok := model.EEBusTags(sf)[model.EEBusTagKey]; ok {
			if sf.Type.Kind() != reflect.Ptr {
				return true
			}
			k := sf.Type.Elem().Kind()
			if k != reflect.Uint && k != reflect.String && k != reflect.Struct {
				return true
			}
		}
	}
	return false
}

//go:norace
func (w *World) Uniq() int { w.uniq++; return w.uniq }

// setScalar sets a pointer-to-scalar field to a fresh unique value.
//
//go:norace
func (w *World) setScalar(fv reflect.Value, f itemField) {
	p := reflect.New(fv.Type().Elem())
	u := w.Uniq()
	switch f.Kind {
	case reflect.String:
		p.Elem().SetString(fmt.Sprintf("v%d", u))
	case reflect.Uint, reflect.Uint64, reflect.Uint32:
		p.Elem().SetUint(uint64(1000 + u))
	case reflect.Int, reflect.Int64, reflect.Int32:
		p.Elem().SetInt(int64(1000 + u))
	case reflect.Float64:
		p.Elem().SetFloat(float64(1000 + u))
	case reflect.Bool:
		p.Elem().SetBool(u%2 == 0)
	}
	fv.Set(p)
}

//go:norace
func setKey(fv reflect.Value, f itemField, id uint) {
	p := reflect.New(fv.Type().Elem())
	switch f.Kind {
	case reflect.String:
		p.Elem().SetString(fmt.Sprintf("k%d", id))
	case reflect.Struct:
		fillKeyStruct(p.Elem(), id)
	default:
		p.Elem().SetUint(uint64(id))
	}
	fv.Set(p)
}

// fillKeyStruct makes the structured identifier number id: every scalar member is id / "k<id>",
// every list member has the one element id.
//
//go:norace
func fillKeyStruct(v reflect.Value, id uint) {
	set := func(e reflect.Value) {
		switch e.Kind() {
		case reflect.String:
			e.SetString(fmt.Sprintf("k%d", id))
		case reflect.Uint, reflect.Uint64, reflect.Uint32:
			e.SetUint(uint64(id))
		case reflect.Int, reflect.Int64, reflect.Int32:
			e.SetInt(int64(id))
		}
	}
	for i := 0; i < v.NumField(); i++ {
		f := v.Field(i)
		switch {
		case f.Kind() == reflect.Ptr && f.Type().Elem().Kind() == reflect.Struct:
			p := reflect.New(f.Type().Elem())
			fillKeyStruct(p.Elem(), id)
			f.Set(p)
		case f.Kind() == reflect.Ptr:
			p := reflect.New(f.Type().Elem())
			set(p.Elem())
			f.Set(p)
		case f.Kind() == reflect.Slice && f.Type().Elem().Kind() != reflect.Struct:
			e := reflect.New(f.Type().Elem()).Elem()
			set(e)
			f.Set(reflect.Append(reflect.MakeSlice(f.Type(), 0, 1), e))
		}
	}
}

// GenItem builds one item. ids gives the key values (nil = no identifiers); fillNum/fillDen
// is the probability with which each non-key scalar field is present; wc: nil = leave the
// changeability flag absent, else its value.
//
//go:norace
func (w *World) GenItem(t reflect.Type, ids []uint, fillNum, fillDen int, wc *bool) reflect.Value {
	s := shapeOf(t)
	v := reflect.New(t).Elem()
	ki := 0
	for _, f := range s.Fields {
		fv := v.Field(f.Idx)
		switch f.Class {
		case fcKey:
			if ids != nil && ki < len(ids) {
				setKey(fv, f, ids[ki])
			}
			ki++
		case fcWriteCheck:
			if wc != nil {
				b := *wc
				fv.Set(reflect.ValueOf(&b))
			}
		case fcScalar:
			if w.T.Bool(fillNum, fillDen, "field:"+f.Name) {
				w.setScalar(fv, f)
			}
		case fcScaled:
			if w.T.Bool(fillNum, fillDen, "field:"+f.Name) {
				fv.Set(reflect.ValueOf(model.NewScaledNumberType(float64(w.Uniq()))))
			}
		case fcSlice:
			if w.T.Bool(fillNum, 2*fillDen, "field:"+f.Name) {
				w.genSlice(fv)
				w.Probe("gen-list-valued-element")
			}
		case fcOther:
			// structured elements (addresses, intervals, ... also as identifiers): only where the
			// scenario asks for them
			if w.GenStructs && fv.Kind() == reflect.Ptr && fv.Type().Elem().Kind() == reflect.Struct && w.T.Bool(1, 2, "field:"+f.Name) {
				p := reflect.New(fv.Type().Elem())
				w.fillStruct(p.Elem(), 0)
				fv.Set(p)
				w.Probe("gen-structured-element")
			}
		}
	}
	return v
}

// GenList builds function data (pointer to the data struct) with the given items.
//
//go:norace
func GenList(info FnInfo, items []reflect.Value) any {
	d := reflect.New(info.DataType)
	sl := reflect.MakeSlice(info.DataType.Field(info.ListFld).Type, 0, len(items))
	for _, it := range items {
		sl = reflect.Append(sl, it)
	}
	d.Elem().Field(info.ListFld).Set(sl)
	return d.Interface()
}

// GenSimpleList builds a list with n items with ids 0..n-1 (first key varies, others 0) and
// most fields populated.
//
//go:norace
func (w *World) GenSimpleList(info FnInfo, n int) any {
	var items []reflect.Value
	s := shapeOf(info.ItemType)
	for i := 0; i < n; i++ {
		ids := make([]uint, len(s.Keys))
		if len(ids) > 0 {
			ids[0] = uint(i)
		}
		items = append(items, w.GenItem(info.ItemType, ids, 3, 4, nil))
	}
	return GenList(info, items)
}

// GenData builds data for any registered function: lists via GenSimpleList, other types with
// their scalar pointer fields populated.
//
//go:norace
func (w *World) GenData(info FnInfo) any {
	if info.IsList && info.ListFld >= 0 {
		return w.GenSimpleList(info, 1+w.T.Choose(3, "items"))
	}
	v := w.GenItem(info.DataType, nil, 3, 4, nil)
	p := reflect.New(info.DataType)
	p.Elem().Set(v)
	return p.Interface()
}

// ForceUnique makes sure every item of a generated list carries at least one unique non-key
// value, so that the list is attributable to exactly one generated update.
//
//go:norace
func (w *World) ForceUnique(info FnInfo, data any) {
	if !info.IsList || info.ListFld < 0 {
		return
	}
	sl := reflect.ValueOf(data).Elem().Field(info.ListFld)
	s := shapeOf(info.ItemType)
	for i := 0; i < sl.Len(); i++ {
		it := sl.Index(i)
		for _, f := range s.Fields {
			if f.Class == fcScaled {
				it.Field(f.Idx).Set(reflect.ValueOf(model.NewScaledNumberType(float64(w.Uniq()))))
				break
			}
			if f.Class == fcScalar && f.Kind != reflect.Bool {
				w.setScalar(it.Field(f.Idx), f)
				break
			}
		}
	}
}

// ---------------------------------------------------------------------------------------
// filters: selectors and elements types harvested from the FilterType struct tags

type filterInfo struct {
	SelType           reflect.Type // struct type of the selectors (nil if none)
	ElType            reflect.Type // struct type of the elements (nil if none)
	SelField, ElField string       // Go names of the members of model.FilterType
}

var filterTable = map[model.FunctionType]filterInfo{}

// The selectors / elements members of a filter are found by the names of the protocol (JSON),
// not by the implementation's own struct tag table (which the code under test reads, and which
// has slips): "<function>Selectors" and "<list item>Elements".
var filterFieldByJSON = map[string]reflect.StructField{}

func init() {
	ft := reflect.TypeOf(model.FilterType{})
	for i := 0; i < ft.NumField(); i++ {
		sf := ft.Field(i)
		if sf.Type.Kind() == reflect.Ptr {
			filterFieldByJSON[jsonName(sf)] = sf
		}
	}
}

// filterInfoFor is computed on first use (the function tables are filled by another init).
//
//go:norace
func filterInfoFor(info FnInfo) filterInfo {
	if fi, ok := filterTable[info.Fn]; ok {
		return fi
	}
	var fi filterInfo
	if sf, ok := filterFieldByJSON[string(info.Fn)+"Selectors"]; ok {
		fi.SelType, fi.SelField = sf.Type.Elem(), sf.Name
	}
	if info.DataType != nil && info.ListFld >= 0 && info.ListFld < info.DataType.NumField() {
		if sf, ok := filterFieldByJSON[jsonName(info.DataType.Field(info.ListFld))+"Elements"]; ok {
			fi.ElType, fi.ElField = sf.Type.Elem(), sf.Name
		}
	}
	filterTable[info.Fn] = fi
	return fi
}

// GenSelector builds a selector (pointer to the selectors struct) naming the full identifier
// ids of an item: selector fields are matched to the item's key fields by name.
//
//go:norace
func GenSelector(info FnInfo, ids []uint) any {
	fi := filterInfoFor(info)
	if fi.SelType == nil || info.ItemType == nil {
		return nil
	}
	s := shapeOf(info.ItemType)
	sel := reflect.New(fi.SelType)
	set := 0
	for ki, k := range s.Keys {
		f := sel.Elem().FieldByName(k.Name)
		if !f.IsValid() || f.Kind() != reflect.Ptr || ki >= len(ids) {
			continue
		}
		p := reflect.New(f.Type().Elem())
		switch f.Type().Elem().Kind() {
		case reflect.String:
			p.Elem().SetString(fmt.Sprintf("k%d", ids[ki]))
		case reflect.Uint:
			p.Elem().SetUint(uint64(ids[ki]))
		case reflect.Struct:
			if f.Type() != info.ItemType.Field(k.Idx).Type {
				continue
			}
			fillKeyStruct(p.Elem(), ids[ki])
		default:
			continue
		}
		f.Set(p)
		set++
	}
	if set == 0 {
		return nil
	}
	return sel.Interface()
}

// GenSelectorWide fills, besides the identifier, every other scalar member the selectors type
// has (members that do not belong to the identifier: scopes, types, ... and members whose
// namesake in the item is a list).
//
//go:norace
func (w *World) GenSelectorWide(info FnInfo, ids []uint) any {
	fi := filterInfoFor(info)
	if fi.SelType == nil || info.ItemType == nil {
		return nil
	}
	var sel reflect.Value
	if s := GenSelector(info, ids); s != nil {
		sel = reflect.ValueOf(s)
	} else {
		sel = reflect.New(fi.SelType)
	}
	for i := 0; i < fi.SelType.NumField(); i++ {
		f := sel.Elem().Field(i)
		if f.Kind() != reflect.Ptr || !f.IsNil() {
			continue
		}
		if w.GenStructs && f.Type().Elem().Kind() == reflect.Struct {
			// a structured member (an address, an interval, nested selectors)
			p := reflect.New(f.Type().Elem())
			w.fillStruct(p.Elem(), 0)
			f.Set(p)
			w.Probe("gen-structured-selector-member")
			continue
		}
		if !scalarKind(f.Type().Elem().Kind()) {
			continue
		}
		p := reflect.New(f.Type().Elem())
		w.setScalarValue(p.Elem())
		f.Set(p)
	}
	return sel.Interface()
}

// fillStruct fills a structured element over a small domain: scalar members are 1 / "k1" (so
// that two generated values of one type are often equal), structured members and lists are
// filled one level down.
//
//go:norace
func (w *World) fillStruct(v reflect.Value, depth int) {
	for i := 0; i < v.NumField(); i++ {
		f := v.Field(i)
		if !f.CanSet() {
			continue
		}
		small := func(e reflect.Value) {
			n := 1 + w.T.Choose(2, "small")
			switch e.Kind() {
			case reflect.String:
				e.SetString(fmt.Sprintf("k%d", n))
			case reflect.Uint, reflect.Uint64, reflect.Uint32:
				e.SetUint(uint64(n))
			case reflect.Int, reflect.Int64, reflect.Int32:
				e.SetInt(int64(n))
			case reflect.Float64:
				e.SetFloat(float64(n))
			case reflect.Bool:
				e.SetBool(n == 1)
			}
		}
		switch {
		case f.Kind() == reflect.Ptr && scalarKind(f.Type().Elem().Kind()):
			p := reflect.New(f.Type().Elem())
			small(p.Elem())
			f.Set(p)
		case f.Kind() == reflect.Ptr && f.Type().Elem().Kind() == reflect.Struct && depth < 2:
			p := reflect.New(f.Type().Elem())
			w.fillStruct(p.Elem(), depth+1)
			f.Set(p)
		case f.Kind() == reflect.Slice && scalarKind(f.Type().Elem().Kind()):
			e := reflect.New(f.Type().Elem()).Elem()
			small(e)
			f.Set(reflect.Append(reflect.MakeSlice(f.Type(), 0, 1), e))
		case f.Kind() == reflect.Slice && f.Type().Elem().Kind() == reflect.Struct && depth < 2:
			e := reflect.New(f.Type().Elem()).Elem()
			w.fillStruct(e, depth+1)
			f.Set(reflect.Append(reflect.MakeSlice(f.Type(), 0, 1), e))
		}
	}
}

// SelectorCoversKeys reports whether the selectors type has a field for every key field of the
// item (only then does a generated selector name a full identifier).
//
//go:norace
func SelectorCoversKeys(info FnInfo) bool {
	fi := filterInfoFor(info)
	if fi.SelType == nil || info.ItemType == nil {
		return false
	}
	s := shapeOf(info.ItemType)
	if len(s.Keys) == 0 || s.hasStructKey() {
		return false
	}
	for _, k := range s.Keys {
		f, ok := fi.SelType.FieldByName(k.Name)
		if !ok || f.Type.Kind() != reflect.Ptr {
			return false
		}
		if ek := f.Type.Elem().Kind(); ek != reflect.Uint && ek != reflect.String &&
			!(ek == reflect.Struct && f.Type == info.ItemType.Field(k.Idx).Type) {
			return false
		}
	}
	return true
}

// GenElements builds an elements value naming the given item fields (by Go field name).
// Returns nil if the elements type lacks one of them.
//
//go:norace
func GenElements(info FnInfo, fields []string) any {
	fi := filterInfoFor(info)
	if fi.ElType == nil {
		return nil
	}
	el := reflect.New(fi.ElType)
	for _, name := range fields {
		f := el.Elem().FieldByName(name)
		if !f.IsValid() || f.Kind() != reflect.Ptr {
			return nil
		}
		f.Set(reflect.New(f.Type().Elem()))
	}
	return el.Interface()
}

// MakeFilter assembles a filter. kind is "partial" or "delete"; selector / elements may be nil.
//
//go:norace
func MakeFilter(info FnInfo, kind string, selector, elements any) *model.FilterType {
	f := &model.FilterType{CmdControl: &model.CmdControlType{}}
	if kind == "partial" {
		f.CmdControl.Partial = &model.ElementTagType{}
	} else {
		f.CmdControl.Delete = &model.ElementTagType{}
	}
	fi := filterInfoFor(info)
	if selector != nil && fi.SelField != "" {
		reflect.ValueOf(f).Elem().FieldByName(fi.SelField).Set(reflect.ValueOf(selector))
	}
	if elements != nil && fi.ElField != "" {
		reflect.ValueOf(f).Elem().FieldByName(fi.ElField).Set(reflect.ValueOf(elements))
	}
	return f
}
