package harness

import (
	"fmt"
	"sort"
	"strings"
	"time"

	"github.com/anishathalye/porcupine"
	"github.com/enbility/spine-go/api"
	"github.com/enbility/spine-go/model"
	"github.com/enbility/spine-go/util"
)

// C09 — bindings: exact registry with at most one binding per server feature.

type regIssued struct {
	op   RegOp
	peer *Peer
	ctr  uint64
}

// regScript issues registry operations of one kind family ("bind" or "sub") from a peer.
type regScript struct {
	w        *World
	pr       *Proto
	kind     string // "bind" | "sub"
	issued   []*regIssued
	listings []*regIssued
	grants   int // successful add results seen so far (drives workload pacing only)
}

// watch counts granted requests as their results are written (workload pacing, not an oracle).
//
//go:norace
func (rs *regScript) watch(p *Peer) {
	p.OnRecv = func(s *Sent) {
		if isRes, errNo := IsResult(s); isRes && errNo == 0 && s.D.Header.MsgCounterReference != nil {
			ref := uint64(*s.D.Header.MsgCounterReference)
			for _, ri := range rs.issued {
				if ri.peer == p && ri.ctr == ref && (ri.op.Kind == "sub" || ri.op.Kind == "bind") {
					rs.grants++
				}
			}
		}
	}
}

//go:norace
func (rs *regScript) clientPool(p *Peer) []*PFeat {
	var l []*PFeat
	for _, e := range p.Ents[1:] {
		l = append(l, e.Feats...)
	}
	return l
}

// issue sends one generated registry operation from p.
//
//go:norace
func (rs *regScript) issue(p *Peer, hot *LFeat) *regIssued {
	w := rs.w
	servers := rs.pr.Servers
	add, del := "bind", "unbind"
	if rs.kind == "sub" {
		add, del = "sub", "unsub"
	}
	shape := w.T.Choose(10, rs.kind+"-shape")
	// server target
	var sf *LFeat
	if hot != nil && w.T.Bool(3, 4, "hot-server") {
		sf = hot
	} else {
		sf = servers[w.T.Choose(len(servers), "server")]
	}
	server := sf.Address()
	ft := sf.Type
	// matching client feature of the peer
	var cf *PFeat
	pool := rs.clientPool(p)
	var match []*PFeat
	for _, f := range pool {
		if f.Type == sf.Type && f.Role == model.RoleTypeClient {
			match = append(match, f)
		}
	}
	if len(match) > 0 {
		cf = match[w.T.Choose(len(match), "client")]
	} else {
		cf = pool[w.T.Choose(len(pool), "client-any")]
	}
	omit := false
	kind := add
	desc := "valid"
	switch shape {
	case 0, 1, 2, 3:
	case 4:
		// wrong role: a server feature of the peer acts as client
		for _, f := range pool {
			if f.Role == model.RoleTypeServer {
				cf = f
			}
		}
		desc = "client-has-server-role"
	case 5:
		// wrong type
		for _, f := range pool {
			if f.Type != sf.Type && f.Role == model.RoleTypeClient {
				cf = f
			}
		}
		desc = "client-type-mismatch"
	case 6:
		// unknown server feature
		server = FAddr(rs.pr.L.Addr, []uint{1}, 77)
		desc = "unknown-server"
	case 7:
		omit = true
		desc = "device-omitted"
	case 8, 9:
		kind = del
		desc = "delete"
		omit = w.T.Bool(1, 4, "delete-omit-device")
	}
	if kind == add && w.T.Bool(1, 6, "requested-type-differs") {
		// the requested server feature type is not the type of the two features: the generic type
		// (only a feature may be generic, the requested type is no wildcard) or some other type
		if w.T.Bool(1, 2, "requested-type-generic") {
			ft = model.FeatureTypeTypeGeneric
		} else {
			ft = allFeatureTypes[w.T.Choose(len(allFeatureTypes), "requested-type")]
		}
		if ft != sf.Type {
			desc += "+requested-type-" + string(ft)
			w.Probe("reg-requested-type-differs")
		}
	}
	ri := &regIssued{peer: p}
	ca := cf.Address()
	if shape == 6 && w.T.Bool(1, 2, "unknown-client-instead") {
		server = sf.Address()
		ca = FAddr(p.Addr, []uint{1}, 66)
		desc = "unknown-client"
	}
	ri.op = RegOp{Kind: kind, Peer: p.Name, Client: fullAddr(ca, p.Addr), Server: fullAddr(server, rs.pr.L.Addr), Desc: desc}
	// the device part of the server address may be absent as well (it then means the recipient)
	if w.T.Bool(1, 5, "omit-server-device") {
		sc := *server
		sc.Device = nil
		server = &sc
		ri.op.Desc += "+server-device-omitted"
		desc = ri.op.Desc
		w.Probe("reg-server-device-omitted")
	}
	if kind == add {
		ftc := ft
		ri.op.Valid = regStaticValid(rs.pr.L, p, ca, server, &ftc)
		if rs.kind == "bind" {
			ri.ctr = p.SendBind(&PFeat{Ent: cf.Ent, ID: uint(*ca.Feature)}, server, ft, omit, "bind:"+desc)
		} else {
			ri.ctr = p.SendSubscribe(&PFeat{Ent: cf.Ent, ID: uint(*ca.Feature)}, server, ft, omit, "sub:"+desc)
		}
	} else {
		if omit {
			ca.Device = nil
		} else if len(rs.pr.Peers) > 1 && w.T.Bool(1, 6, "delete-names-other-device") {
			// the client address names the device of another peer (seed C09-f): an entry of this
			// sender with such a client does not exist - the request is refused and the other
			// peer's entry (same entity and feature numbers) stays
			for _, q := range rs.pr.Peers {
				if q != p {
					ca.Device = util.Ptr(model.AddressDeviceType(q.Addr))
					break
				}
			}
			ri.op.Client = fullAddr(ca, p.Addr)
			ri.op.Desc += "+client-names-other-device"
			w.Probe("reg-delete-names-other-device")
		}
		if rs.kind == "bind" {
			ri.ctr = p.SendUnbind(ca, server, "unbind")
		} else {
			ri.ctr = p.SendUnsubscribe(ca, server, "unsub")
		}
	}
	rs.issued = append(rs.issued, ri)
	return ri
}

// entityRemovedBefore: the peer's connection delivered, before seq, a notification that marks
// the entity of the client address as removed.
//
//go:norace
func entityRemovedBefore(p *Peer, client string, seq uint64) bool {
	for _, d := range p.Conn.Del {
		if !d.Done || d.End > seq || d.D == nil || len(d.D.Payload.Cmd) == 0 {
			continue
		}
		dd := d.D.Payload.Cmd[0].NodeManagementDetailedDiscoveryData
		if dd == nil {
			continue
		}
		for _, ei := range dd.EntityInformation {
			if ei.Description == nil || ei.Description.EntityAddress == nil || ei.Description.LastStateChange == nil ||
				*ei.Description.LastStateChange != model.NetworkManagementStateChangeTypeRemoved {
				continue
			}
			var a []uint
			for _, x := range ei.Description.EntityAddress.Entity {
				a = append(a, uint(x))
			}
			if strings.HasPrefix(client, p.Addr+"/"+fmtUints(a)+"/") {
				return true
			}
		}
	}
	return false
}

// collect turns issued requests into a history of completed operations.
//
//go:norace
func (rs *regScript) collect(prop string) []RegOp {
	w := rs.w
	var ops []RegOp
	for _, ri := range rs.issued {
		for _, d := range ri.peer.DeliveriesOf(ri.ctr) {
			if !d.Done {
				continue
			}
			op := ri.op
			op.Call, op.Return = d.Begin, d.End
			// validity is a matter of what the node knows when it handles the request: a (duplicated,
			// delayed) request that arrives after its peer announced the client's entity as removed
			// names a client that no longer exists
			if op.Valid && entityRemovedBefore(ri.peer, op.Client, d.Begin) {
				op.Valid = false
				op.Desc += "+client-entity-removed-meanwhile"
			}
			res := ri.peer.RespDuring(d)
			nres := 0
			for _, s := range res {
				if isRes, errNo := IsResult(s); isRes {
					nres++
					op.OK = errNo == 0
				}
			}
			if nres != 1 {
				w.Violate(prop+"/result-count/"+op.Kind, "%s request %s#%d (%s) got %d result datagrams, want exactly 1", op.Kind, ri.peer.Name, ri.ctr, op.Desc, nres)
				continue
			}
			ops = append(ops, op)
		}
	}
	return ops
}

// checkLinearizable checks the history against the sequential registry with porcupine.
//
//go:norace
func checkRegLinearizable(w *World, prop string, ops []RegOp, single bool) {
	peers := map[string]int{}
	var pops []porcupine.Operation
	for _, o := range ops {
		if _, ok := peers[o.Peer]; !ok {
			peers[o.Peer] = len(peers)
		}
		pops = append(pops, porcupine.Operation{ClientId: peers[o.Peer]*1000 + o.ClientID, Input: o, Call: int64(o.Call), Output: o.OK, Return: int64(o.Return)})
	}
	m := porcupine.Model{
		Init: func() interface{} { return regState{} },
		Step: func(state, input, output interface{}) (bool, interface{}) {
			ok, ns := regStep(state.(regState), input.(RegOp), single)
			return ok, ns
		},
		Equal:             func(a, b interface{}) bool { return a.(regState).String() == b.(regState).String() },
		DescribeOperation: func(input, output interface{}) string { return input.(RegOp).String() },
	}
	res := porcupine.CheckOperationsTimeout(m, pops, 20*time.Second)
	switch res {
	case porcupine.Illegal:
		var l []string
		shape := map[string]bool{}
		for _, o := range ops {
			l = append(l, o.String())
			shape[o.Kind] = true
		}
		// find a minimal hint: the first op that is wrong in the sequential order of returns
		sig := prop + "/registry-not-linearizable/" + firstBadShape(ops, single)
		w.Violate(sig, "history of %d registry operations has no linearization against the sequential registry:\n  %s", len(ops), strings.Join(l, "\n  "))
	case porcupine.Unknown:
		w.Probe("porcupine-unknown")
	default:
		w.Probe("porcupine-ok")
	}
}

// firstBadShape replays the history in order of return and names the first operation whose
// outcome deviates; used only to give violations a stable, descriptive signature.
//
//go:norace
func firstBadShape(ops []RegOp, single bool) string {
	s := append([]RegOp(nil), ops...)
	sort.Slice(s, func(i, j int) bool { return s[i].Return < s[j].Return })
	st := regState{}
	for _, o := range s {
		ok, ns := regStep(st, o, single)
		if !ok {
			exp := "granted"
			if o.OK {
				exp = "refused"
			}
			if o.Kind == "list" {
				return "listing-mismatch"
			}
			return fmt.Sprintf("%s-%s-expected-%s", o.Kind, o.Desc, exp)
		}
		st = ns
	}
	return "concurrent"
}

//go:norace
func bindingListing(n *Node, p *Peer) (string, []uint64) {
	rd := n.Dev.RemoteDeviceForSki(p.Conn.Ski)
	if rd == nil {
		return "", nil
	}
	var l []string
	var ids []uint64
	for _, b := range n.Dev.BindingManager().Bindings(rd) {
		l = append(l, RegKey{p.Name, AddrStr(b.ClientFeature.Address()), AddrStr(b.ServerFeature.Address())}.String())
		ids = append(ids, b.Id)
	}
	sort.Strings(l)
	return strings.Join(l, ";"), ids
}

func init() {
	Register(&Scenario{
		Prop: "C09", Name: "bind-registry",
		NonTrivial: []string{"bind-granted"},
		Build: func(w *World) {
			pr := BuildProto(w, ProtoOpt{Peers: 2 + w.T.Choose(2, "peers"), MinServers: 2,
				ServerTypes: []model.FeatureTypeType{model.FeatureTypeTypeLoadControl, model.FeatureTypeTypeDeviceConfiguration, model.FeatureTypeTypeSetpoint}})
			rs := &regScript{w: w, pr: pr, kind: "bind"}
			w.EnableFaults("net.dup")
			hot := pr.Servers[w.T.Choose(len(pr.Servers), "hot")]
			var events []string
			h := &evCollector{w: w, want: api.EventTypeBindingChange, out: &events}
			_ = pr.L.Dev // events are process global
			subscribeApp(w, h)
			for _, p := range pr.Peers {
				p := p
				w.Go("script:"+p.Name, func() {
					p.AwaitDiscovery()
					n := 2 + w.T.Choose(5, "nops")
					for i := 0; i < n; i++ {
						if w.T.Bool(1, 6, "announces-known-entity-again") {
							// the peer announces an entity again, unchanged (the node rebuilds its view of the
							// entity's features): the registry is about addresses, nothing changes for it
							e := p.Ents[1+w.T.Choose(len(p.Ents)-1, "entity-again")]
							added := model.NetworkManagementStateChangeTypeAdded
							cmd := model.CmdType{
								Function:                            util.Ptr(model.FunctionTypeNodeManagementDetailedDiscoveryData),
								Filter:                              []model.FilterType{*model.NewFilterTypePartial()},
								NodeManagementDetailedDiscoveryData: p.DiscoveryData([]*PEnt{e}, &added, true),
							}
							p.Await(p.SendCmd(p.NM().Address(), p.LocalNM(), model.CmdClassifierTypeNotify, nil, cmd, "entity-announced-again"))
							w.Probe("peer-announced-known-entity-again")
						}
						ri := rs.issue(p, hot)
						if w.T.Bool(1, 2, "await") {
							p.Await(ri.ctr)
						}
					}
				})
			}
			// invariant after every step: at most one binding per server feature
			w.StepCheck = func() {
				// (every third scheduling step: a second binding does not go away by itself, and the
				// look from outside is the expensive part of a run)
				if w.Steps%3 != 0 {
					return
				}
				for _, sf := range pr.Servers {
					sf := sf
					w.Observe(func() {
						b := pr.L.Dev.BindingManager().BindingsOnFeature(*sf.F.Address())
						if len(b) > 1 {
							w.Violate("C09/two-bindings-on-one-server-feature", "server feature %s has %d bindings", AddrStr(sf.F.Address()), len(b))
						}
						if len(b) == 1 {
							w.Probe("bind-granted")
						}
					})
				}
			}
			w.OnCleanup(func() {})
			w.scData = &c09Data{pr: pr, rs: rs, events: &events}
		},
		Check: func(w *World) {
			d := w.scData.(*c09Data)
			ops := d.rs.collect("C09")
			// final listings as reads at the end of the history
			end := w.Stamp()
			allIDs := map[uint64]int{}
			for _, p := range d.pr.Peers {
				l, ids := bindingListing(d.pr.L, p)
				for _, id := range ids {
					allIDs[id]++
				}
				ops = append(ops, RegOp{Kind: "list", Peer: p.Name, Listing: l, OK: true, Call: end, Return: end + 1, ClientID: 999})
			}
			for id, n := range allIDs {
				if n > 1 {
					w.Violate("C09/duplicate-binding-id", "binding id %d is used by %d entries", id, n)
				}
			}
			w.Stamp()
			granted, refusedBound, deletes := 0, 0, 0
			for _, o := range ops {
				if o.Kind == "bind" && o.OK {
					granted++
				}
				if o.Kind == "bind" && !o.OK && o.Valid {
					refusedBound++
				}
				if o.Kind == "unbind" && o.OK {
					deletes++
				}
			}
			w.ProbeN("bind-granted-ops", granted)
			w.ProbeN("bind-refused-already-bound", refusedBound)
			w.ProbeN("unbind-ok", deletes)
			// overlapping bind requests for the same server from different peers
			for i, a := range ops {
				for _, b := range ops[i+1:] {
					if a.Kind == "bind" && b.Kind == "bind" && a.Server == b.Server && a.Peer != b.Peer && a.Call < b.Return && b.Call < a.Return {
						w.Probe("two-bind-requests-for-one-feature-overlapped")
					}
				}
			}
			checkRegLinearizable(w, "C09", ops, true)
			// events: one BindingChange event per granted bind / successful unbind
			adds, rems := 0, 0
			for _, e := range *d.events {
				if strings.Contains(e, "add") {
					adds++
				} else {
					rems++
				}
			}
			if adds != granted {
				w.Violate("C09/binding-add-events", "%d binding-added events for %d granted bindings", adds, granted)
			}
			if rems != deletes {
				w.Violate("C09/binding-remove-events", "%d binding-removed events for %d successful deletes", rems, deletes)
			}
			w.State(fmt.Sprint(ops))
		},
	})
}

type c09Data struct {
	pr     *Proto
	rs     *regScript
	events *[]string
}
