package harness

import (
	"encoding/json"
	"fmt"

	"github.com/enbility/spine-go/model"
	"github.com/enbility/spine-go/util"
)

// PFunc is a function a scripted feature announces.
type PFunc struct {
	Fn   model.FunctionType
	R, W bool
}

// PFeat is a feature announced by a scripted peer.
type PFeat struct {
	Ent   *PEnt
	ID    uint
	Type  model.FeatureTypeType
	Role  model.RoleType
	Funcs []PFunc
	Desc  string
	// Partial: functions announced with "partial" on read ([0]) / write ([1])
	Partial map[model.FunctionType][2]bool
}

// PEnt is an entity announced by a scripted peer.
type PEnt struct {
	Peer  *Peer
	Addr  []uint
	Type  model.EntityTypeType
	Desc  string
	Feats []*PFeat
}

// Peer is a scripted remote device: harness code holding a small model of a device and
// emitting datagrams built with the repository's own model types.
type Peer struct {
	W       *World
	Name    string
	Addr    string // SPINE device address
	Node    *Node  // the real node it is connected to
	Conn    *Conn
	Ents    []*PEnt
	ctr     uint64
	Gone    []*PEnt // entities the peer has removed (they were announced once)
	AutoDD  bool    // answer detailed-discovery reads automatically
	AutoAck bool    // acknowledge calls (subscribe to our node management) with a success result
	OnRecv  func(s *Sent)
	Sends   int

	probeCtr uint64 // counter of the post-fault probe read (scenario bookkeeping)
	// ReverseEnts: complete discovery data lists the entities in reverse order
	ReverseEnts bool
}

//go:norace
func (w *World) NewPeer(name, addr string, node *Node) *Peer {
	p := &Peer{W: w, Name: name, Addr: addr, Node: node, AutoDD: true, AutoAck: true, ctr: 0}
	// entity 0 with node management is implicit
	e0 := p.AddEntity([]uint{0}, model.EntityTypeTypeDeviceInformation, "")
	e0.AddFeature(0, model.FeatureTypeTypeNodeManagement, model.RoleTypeSpecial,
		PFunc{model.FunctionTypeNodeManagementDetailedDiscoveryData, true, false},
		PFunc{model.FunctionTypeNodeManagementUseCaseData, true, false},
		PFunc{model.FunctionTypeNodeManagementSubscriptionData, true, false},
		PFunc{model.FunctionTypeNodeManagementBindingData, true, false})
	return p
}

//go:norace
func (p *Peer) AddEntity(addr []uint, t model.EntityTypeType, desc string) *PEnt {
	e := &PEnt{Peer: p, Addr: addr, Type: t, Desc: desc}
	p.Ents = append(p.Ents, e)
	return e
}

//go:norace
func (p *Peer) RemoveEntity(addr []uint) {
	var keep []*PEnt
	for _, e := range p.Ents {
		if !eqUints(e.Addr, addr) {
			keep = append(keep, e)
		} else {
			p.Gone = append(p.Gone, e)
		}
	}
	p.Ents = keep
}

//go:norace
func (p *Peer) Entity(addr []uint) *PEnt {
	for _, e := range p.Ents {
		if eqUints(e.Addr, addr) {
			return e
		}
	}
	return nil
}

//go:norace
func (e *PEnt) AddFeature(id uint, t model.FeatureTypeType, role model.RoleType, fn ...PFunc) *PFeat {
	f := &PFeat{Ent: e, ID: id, Type: t, Role: role, Funcs: fn, Desc: fmt.Sprintf("%s %s", t, role)}
	e.Feats = append(e.Feats, f)
	return f
}

//go:norace
func (e *PEnt) Feature(id uint) *PFeat {
	for _, f := range e.Feats {
		if f.ID == id {
			return f
		}
	}
	return nil
}

func eqUints(a, b []uint) bool {
	if len(a) != len(b) {
		return false
	}
	for i := range a {
		if a[i] != b[i] {
			return false
		}
	}
	return true
}

// FAddr builds a feature address.
//
//go:norace
func FAddr(dev string, ent []uint, feat uint) *model.FeatureAddressType {
	a := &model.FeatureAddressType{Feature: util.Ptr(model.AddressFeatureType(feat))}
	if dev != "" {
		a.Device = util.Ptr(model.AddressDeviceType(dev))
	}
	for _, e := range ent {
		a.Entity = append(a.Entity, model.AddressEntityType(e))
	}
	return a
}

//go:norace
func (f *PFeat) Address() *model.FeatureAddressType { return FAddr(f.Ent.Peer.Addr, f.Ent.Addr, f.ID) }

//go:norace
func (p *Peer) NM() *PFeat { return p.Ents[0].Feats[0] }

// Connect connects the peer to its node.
//
//go:norace
func (p *Peer) Connect() {
	p.Node.Connect(p.Name, p.onWrite, func(c *Conn) { p.Conn = c })
}

//go:norace
func (p *Peer) onWrite(s *Sent) {
	if s.D == nil {
		return
	}
	h := s.D.Header
	if p.AutoDD && h.CmdClassifier != nil && *h.CmdClassifier == model.CmdClassifierTypeRead &&
		len(s.D.Payload.Cmd) > 0 && s.D.Payload.Cmd[0].NodeManagementDetailedDiscoveryData != nil {
		p.SendDiscoveryReply(h.MsgCounter, h.AddressSource)
	}
	if p.AutoAck && h.CmdClassifier != nil && *h.CmdClassifier == model.CmdClassifierTypeCall && h.AckRequest != nil && *h.AckRequest {
		p.SendResult(h, 0)
	}
	if p.OnRecv != nil {
		p.OnRecv(s)
	}
}

//go:norace
func (p *Peer) NextCtr() *model.MsgCounterType {
	p.ctr++
	return util.Ptr(model.MsgCounterType(p.ctr))
}

// Send marshals and enqueues a datagram toward the node; returns the message counter.
//
//go:norace
func (p *Peer) Send(d model.DatagramType, tag string) uint64 {
	raw, err := json.Marshal(model.Datagram{Datagram: d})
	if err != nil {
		panic(err)
	}
	p.Sends++
	var c uint64
	if d.Header.MsgCounter != nil {
		c = uint64(*d.Header.MsgCounter)
	}
	t := fmt.Sprintf("%s#%d:%s", p.Name, c, tag)
	p.W.Logf("peer-send %s %s", t, DescribeDatagram(&d, raw))
	p.Conn.Push(raw, t)
	return c
}

//go:norace
func (p *Peer) SendRaw(raw []byte, tag string) {
	p.Sends++
	p.W.Logf("peer-send-raw %s:%s len=%d", p.Name, tag, len(raw))
	p.Conn.Push(raw, p.Name+":"+tag)
}

// Header builds a datagram header.
//
//go:norace
func (p *Peer) Header(src, dst *model.FeatureAddressType, cl model.CmdClassifierType, ack *bool) model.HeaderType {
	return model.HeaderType{
		SpecificationVersion: util.Ptr(model.SpecificationVersionType("1.3.0")),
		AddressSource:        src,
		AddressDestination:   dst,
		MsgCounter:           p.NextCtr(),
		CmdClassifier:        &cl,
		AckRequest:           ack,
	}
}

//go:norace
func (p *Peer) SendResult(req model.HeaderType, errNo uint) uint64 {
	h := p.Header(req.AddressDestination, req.AddressSource, model.CmdClassifierTypeResult, nil)
	if h.AddressSource != nil && h.AddressSource.Device == nil {
		cp := *h.AddressSource
		cp.Device = util.Ptr(model.AddressDeviceType(p.Addr))
		h.AddressSource = &cp
	}
	h.MsgCounterReference = req.MsgCounter
	cmd := model.CmdType{ResultData: &model.ResultDataType{ErrorNumber: util.Ptr(model.ErrorNumberType(errNo))}}
	return p.Send(model.DatagramType{Header: h, Payload: model.PayloadType{Cmd: []model.CmdType{cmd}}}, "result")
}

// DiscoveryData builds detailed-discovery data for the given entities (all if nil).
//
//go:norace
func (p *Peer) DiscoveryData(ents []*PEnt, state *model.NetworkManagementStateChangeType, withFeatures bool) *model.NodeManagementDetailedDiscoveryDataType {
	if ents == nil {
		ents = p.Ents
		if p.ReverseEnts {
			// (the order of the entities in the data means nothing: children before parents)
			ents = nil
			for i := len(p.Ents) - 1; i >= 0; i-- {
				ents = append(ents, p.Ents[i])
			}
		}
	}
	dd := &model.NodeManagementDetailedDiscoveryDataType{
		SpecificationVersionList: &model.NodeManagementSpecificationVersionListType{
			SpecificationVersion: []model.SpecificationVersionDataType{"1.3.0"},
		},
		DeviceInformation: &model.NodeManagementDetailedDiscoveryDeviceInformationType{
			Description: &model.NetworkManagementDeviceDescriptionDataType{
				DeviceAddress: &model.DeviceAddressType{Device: util.Ptr(model.AddressDeviceType(p.Addr))},
				DeviceType:    util.Ptr(model.DeviceTypeTypeChargingStation),
			},
		},
	}
	for _, e := range ents {
		dd.EntityInformation = append(dd.EntityInformation, p.EntityInfo(e, state))
		if withFeatures {
			for _, f := range e.Feats {
				dd.FeatureInformation = append(dd.FeatureInformation, p.FeatureInfo(f))
			}
		}
	}
	return dd
}

//go:norace
func (p *Peer) EntityInfo(e *PEnt, state *model.NetworkManagementStateChangeType) model.NodeManagementDetailedDiscoveryEntityInformationType {
	ea := &model.EntityAddressType{Device: util.Ptr(model.AddressDeviceType(p.Addr))}
	for _, x := range e.Addr {
		ea.Entity = append(ea.Entity, model.AddressEntityType(x))
	}
	ei := model.NodeManagementDetailedDiscoveryEntityInformationType{
		Description: &model.NetworkManagementEntityDescriptionDataType{
			EntityAddress:   ea,
			EntityType:      util.Ptr(e.Type),
			LastStateChange: state,
		},
	}
	if e.Desc != "" {
		ei.Description.Description = util.Ptr(model.DescriptionType(e.Desc))
	}
	return ei
}

//go:norace
func (p *Peer) FeatureInfo(f *PFeat) model.NodeManagementDetailedDiscoveryFeatureInformationType {
	var sf []model.FunctionPropertyType
	for _, fn := range f.Funcs {
		po := &model.PossibleOperationsType{}
		if fn.R {
			po.Read = &model.PossibleOperationsReadType{}
			if f.Partial[fn.Fn][0] {
				po.Read.Partial = &model.ElementTagType{}
			}
		}
		if fn.W {
			po.Write = &model.PossibleOperationsWriteType{}
			if f.Partial[fn.Fn][1] {
				po.Write.Partial = &model.ElementTagType{}
			}
		}
		sf = append(sf, model.FunctionPropertyType{Function: util.Ptr(fn.Fn), PossibleOperations: po})
	}
	fi := model.NodeManagementDetailedDiscoveryFeatureInformationType{
		Description: &model.NetworkManagementFeatureDescriptionDataType{
			FeatureAddress:    f.Address(),
			FeatureType:       util.Ptr(f.Type),
			Role:              util.Ptr(f.Role),
			SupportedFunction: sf,
		},
	}
	if f.Desc != "" {
		fi.Description.Description = util.Ptr(model.DescriptionType(f.Desc))
	}
	return fi
}

//go:norace
func (p *Peer) SendDiscoveryReply(ref *model.MsgCounterType, dst *model.FeatureAddressType) uint64 {
	h := p.Header(p.NM().Address(), dst, model.CmdClassifierTypeReply, nil)
	h.MsgCounterReference = ref
	cmd := model.CmdType{NodeManagementDetailedDiscoveryData: p.DiscoveryData(nil, nil, true)}
	return p.Send(model.DatagramType{Header: h, Payload: model.PayloadType{Cmd: []model.CmdType{cmd}}}, "dd-reply")
}

// LocalNM returns the address of the node's node-management feature.
//
//go:norace
func (p *Peer) LocalNM() *model.FeatureAddressType { return FAddr(p.Node.Addr, []uint{0}, 0) }

// SendCmd sends a single-command datagram.
//
//go:norace
func (p *Peer) SendCmd(src, dst *model.FeatureAddressType, cl model.CmdClassifierType, ack *bool, cmd model.CmdType, tag string) uint64 {
	h := p.Header(src, dst, cl, ack)
	return p.Send(model.DatagramType{Header: h, Payload: model.PayloadType{Cmd: []model.CmdType{cmd}}}, tag)
}

//go:norace
func (p *Peer) SendSubscribe(client *PFeat, server *model.FeatureAddressType, ft model.FeatureTypeType, omitDevice bool, tag string) uint64 {
	ca := client.Address()
	if omitDevice {
		ca.Device = nil
	}
	cmd := model.CmdType{NodeManagementSubscriptionRequestCall: &model.NodeManagementSubscriptionRequestCallType{
		SubscriptionRequest: &model.SubscriptionManagementRequestCallType{ClientAddress: ca, ServerAddress: server, ServerFeatureType: &ft}}}
	return p.SendCmd(p.NM().Address(), p.LocalNM(), model.CmdClassifierTypeCall, util.Ptr(true), cmd, tag+"("+AddrStr(ca)+"=>"+AddrStr(server)+")")
}

//go:norace
func (p *Peer) SendUnsubscribe(client *model.FeatureAddressType, server *model.FeatureAddressType, tag string) uint64 {
	cmd := model.CmdType{NodeManagementSubscriptionDeleteCall: &model.NodeManagementSubscriptionDeleteCallType{
		SubscriptionDelete: &model.SubscriptionManagementDeleteCallType{ClientAddress: client, ServerAddress: server}}}
	return p.SendCmd(p.NM().Address(), p.LocalNM(), model.CmdClassifierTypeCall, util.Ptr(true), cmd, tag+"("+AddrStr(client)+"=>"+AddrStr(server)+")")
}

//go:norace
func (p *Peer) SendBind(client *PFeat, server *model.FeatureAddressType, ft model.FeatureTypeType, omitDevice bool, tag string) uint64 {
	ca := client.Address()
	if omitDevice {
		ca.Device = nil
	}
	cmd := model.CmdType{NodeManagementBindingRequestCall: &model.NodeManagementBindingRequestCallType{
		BindingRequest: &model.BindingManagementRequestCallType{ClientAddress: ca, ServerAddress: server, ServerFeatureType: &ft}}}
	return p.SendCmd(p.NM().Address(), p.LocalNM(), model.CmdClassifierTypeCall, util.Ptr(true), cmd, tag+"("+AddrStr(ca)+"=>"+AddrStr(server)+")")
}

//go:norace
func (p *Peer) SendUnbind(client *model.FeatureAddressType, server *model.FeatureAddressType, tag string) uint64 {
	cmd := model.CmdType{NodeManagementBindingDeleteCall: &model.NodeManagementBindingDeleteCallType{
		BindingDelete: &model.BindingManagementDeleteCallType{ClientAddress: client, ServerAddress: server}}}
	return p.SendCmd(p.NM().Address(), p.LocalNM(), model.CmdClassifierTypeCall, util.Ptr(true), cmd, tag+"("+AddrStr(client)+"=>"+AddrStr(server)+")")
}

// Responses returns the datagrams the node wrote to this peer that reference ctr.
//
//go:norace
func (p *Peer) Responses(ctr uint64) []*Sent {
	var r []*Sent
	for _, s := range p.Conn.Out {
		if s.D != nil && s.D.Header.MsgCounterReference != nil && uint64(*s.D.Header.MsgCounterReference) == ctr {
			r = append(r, s)
		}
	}
	return r
}

// IsResult reports whether s is a result datagram and returns its error number.
//
//go:norace
func IsResult(s *Sent) (bool, uint) {
	if s.D == nil || s.D.Header.CmdClassifier == nil || *s.D.Header.CmdClassifier != model.CmdClassifierTypeResult {
		return false, 0
	}
	if len(s.D.Payload.Cmd) == 0 || s.D.Payload.Cmd[0].ResultData == nil || s.D.Payload.Cmd[0].ResultData.ErrorNumber == nil {
		return true, 9999
	}
	return true, uint(*s.D.Payload.Cmd[0].ResultData.ErrorNumber)
}

//go:norace
func Classifier(s *Sent) string {
	if s.D == nil || s.D.Header.CmdClassifier == nil {
		return ""
	}
	return string(*s.D.Header.CmdClassifier)
}
