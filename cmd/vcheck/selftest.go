package main

import (
	"bufio"
	"encoding/json"
	"fmt"
	"os"
	"os/exec"
	"path/filepath"
	"sort"
	"strings"
)

// selftest proves determinism: every run seed of every property is executed in separate
// processes at GOMAXPROCS 1, 4 and 16 and the canonical log hashes must agree.
func selftest() {
	scratch, err := os.MkdirTemp("", "vcheck-selftest-")
	if err != nil {
		fatal2("%v", err)
	}
	defer os.RemoveAll(scratch)
	builds := map[string]build{}
	buildFor := func(stmt []string) build {
		k := fmt.Sprint(stmt)
		if b, ok := builds[k]; ok {
			return b
		}
		sub := filepath.Join(scratch, fmt.Sprintf("b%d", len(builds)))
		os.MkdirAll(sub, 0o755)
		b := doBuild(sub, false, stmt)
		builds[k] = b
		return b
	}
	var ids []string
	for id := range props {
		ids = append(ids, id)
	}
	sort.Strings(ids)
	if len(os.Args) > 2 {
		ids = os.Args[2:]
	}
	n := 64
	if v := os.Getenv("VERIF_RUNS"); v != "" {
		fmt.Sscan(v, &n)
	}
	bad := 0
	total := 0
	for _, id := range ids {
		// the build the quick tier of this property uses (statement-level yields included)
		b := buildFor(props[id].StmtQuick)
		hashes := map[int][]string{}
		for _, procs := range []int{1, 4, 16, 4} {
			out := filepath.Join(scratch, fmt.Sprintf("%s-%d.jsonl", id, procs))
			cmd := exec.Command(b.binary, "-test.run", "^TestSim$", "-test.cpu", fmt.Sprint(procs))
			cmd.Dir = b.dir
			cmd.Env = append(os.Environ(), "VERIF_PROP="+id, "VERIF_SEED=7", fmt.Sprintf("VERIF_RUNS=%d", n), "VERIF_OUT="+out,
				"VERIF_RECHECK=0", "VERIF_MAXVIOL=0", fmt.Sprintf("GOMAXPROCS=%d", procs))
			if o, err := cmd.CombinedOutput(); err != nil {
				fatal2("selftest worker %s: %v\n%s", id, err, tail(string(o), 40))
			}
			f, _ := os.Open(out)
			sc := bufio.NewScanner(f)
			sc.Buffer(make([]byte, 1<<20), 64<<20)
			for sc.Scan() {
				var l line
				if json.Unmarshal(sc.Bytes(), &l) == nil && l.Run != nil {
					hashes[l.Run.RunIndex] = append(hashes[l.Run.RunIndex], l.Run.LogHash)
				}
			}
			f.Close()
		}
		for idx, hs := range hashes {
			total++
			for _, h := range hs[1:] {
				if h != hs[0] {
					bad++
					fmt.Printf("selftest: %s run %d diverged: %v\n", id, idx, hs)
					break
				}
			}
		}
		fmt.Printf("selftest: %s %d runs x 4 processes compared\n", id, len(hashes))
	}
	if bad > 0 {
		fmt.Printf("selftest: %d of %d runs diverged\n", bad, total)
		os.Exit(2)
	}
	// the race build must report the known unsynchronised accesses of the SELF probes although
	// every hand-off of the scheduler is hidden from the detector
	rsub := filepath.Join(scratch, "race")
	os.MkdirAll(rsub, 0o755)
	rb := doBuild(rsub, true, nil)
	for _, probe := range []struct{ prop, want string }{{"SELF", "selfRaceBump"}} {
		out := filepath.Join(scratch, "probe-"+probe.prop)
		os.MkdirAll(out, 0o755)
		runWorkers(rb, probe.prop, 7, 40, 30, 1, out, nil)
		reports := 0
		files, _ := filepath.Glob(filepath.Join(out, "race_w*"))
		for _, f := range files {
			data, _ := os.ReadFile(f)
			if strings.Contains(string(data), "WARNING: DATA RACE") && strings.Contains(string(data), probe.want) {
				reports++
			}
		}
		if reports == 0 {
			fmt.Printf("selftest: race probe %s: the race build did NOT report the known race\n", probe.prop)
			os.Exit(2)
		}
		fmt.Printf("selftest: race probe %s reported under owned schedules\n", probe.prop)
	}
	fmt.Printf("selftest: all %d runs deterministic across GOMAXPROCS 1/4/16\n", total)
}
