package main

import (
	"os"
	"path/filepath"
	"regexp"
	"sort"
	"strings"
)

var accessHdr = regexp.MustCompile(`^(Read|Write|Previous read|Previous write|Atomic read|Atomic write|Previous atomic read|Previous atomic write) at `)

// collectRaceReports parses the GORACE log files of all workers in dir.
func collectRaceReports(dir string) []raceReport {
	var out []raceReport
	files, _ := filepath.Glob(filepath.Join(dir, "race_w*"))
	sort.Strings(files)
	for _, f := range files {
		data, err := os.ReadFile(f)
		if err != nil {
			continue
		}
		for _, blk := range strings.Split(string(data), "==================") {
			if !strings.Contains(blk, "WARNING: DATA RACE") {
				continue
			}
			if rr, ok := parseRace(blk); ok {
				out = append(out, rr)
			}
		}
	}
	return out
}

type raceSide struct {
	kind   string
	frames []string
}

func parseRace(blk string) (raceReport, bool) {
	lines := strings.Split(blk, "\n")
	var sides []raceSide
	var cur *raceSide
	for _, l := range lines {
		if accessHdr.MatchString(l) {
			sides = append(sides, raceSide{kind: strings.ToLower(strings.SplitN(l, " at ", 2)[0])})
			cur = &sides[len(sides)-1]
			continue
		}
		if strings.HasPrefix(l, "Goroutine ") || strings.TrimSpace(l) == "" {
			if strings.HasPrefix(l, "Goroutine ") {
				cur = nil
			}
			continue
		}
		if cur != nil && strings.HasPrefix(l, "  ") && !strings.HasPrefix(l, "   ") {
			fn := strings.TrimSpace(l)
			if i := strings.LastIndexByte(fn, '('); i > 0 {
				fn = fn[:i]
			}
			cur.frames = append(cur.frames, fn)
		}
	}
	if len(sides) < 2 {
		return raceReport{}, false
	}
	a, aStack := sideKey(sides[0])
	b, bStack := sideKey(sides[1])
	if !aStack && !bStack {
		return raceReport{Signature: "harness-internal", Text: blk}, true
	}
	if aStack != bStack {
		// one side is the application (harness) touching memory, the other the stack. Only
		// "the stack writes what the application reads" is about data handed to the application;
		// the other direction (the harness hands bytes / data to the stack from another task
		// without synchronisation the detector can see) is an artefact of the harness
		st, app := sides[0], sides[1]
		if !aStack {
			st, app = sides[1], sides[0]
		}
		if !(strings.Contains(st.kind, "write") && strings.Contains(app.kind, "read")) {
			return raceReport{Signature: "harness-internal", Text: blk}, true
		}
	}
	keys := []string{a, b}
	sort.Strings(keys)
	return raceReport{Signature: "race/" + keys[0] + "|" + keys[1], Text: strings.TrimSpace(blk)}, true
}

// sideKey names one access. An access belongs to the stack if a frame of package spine is on
// its call stack (then it is named after the innermost spine-go frame, which may be in package
// model); otherwise it is the application (the harness, possibly inside encoding/json or
// inside a pure helper of package model that the harness calls itself).
func sideKey(s raceSide) (string, bool) {
	// the innermost frame that is neither runtime nor standard library decides who is acting:
	// harness code (also when the stack called it, e.g. the transport writer) is the application
	for _, f := range s.frames {
		if strings.Contains(f, "verifsim/") {
			return "app", false
		}
		if strings.Contains(f, "github.com/enbility/spine-go/") {
			break
		}
	}
	stack := false
	for _, f := range s.frames {
		if strings.Contains(f, "github.com/enbility/spine-go/spine.") {
			stack = true
		}
	}
	if !stack {
		return "app", false
	}
	for _, f := range s.frames {
		if strings.Contains(f, "github.com/enbility/spine-go/") {
			short := f[strings.Index(f, "github.com/enbility/spine-go/")+len("github.com/enbility/spine-go/"):]
			if i := strings.Index(short, "[go.shape"); i > 0 {
				short = short[:i]
			}
			if i := strings.Index(short, "[...]"); i > 0 {
				short = short[:i]
			}
			return short, true
		}
	}
	return "stack", true
}

func raceRelevant(prop string, rr raceReport) bool {
	if rr.Signature == "harness-internal" {
		return false
	}
	isApp := strings.Contains(rr.Signature, "/app|") || strings.HasSuffix(rr.Signature, "|app")
	switch prop {
	case "C11":
		return isApp
	default:
		return true
	}
}
