package main

import (
	"os"
	"path/filepath"
	"regexp"
	"sort"
	"strings"
)

var accessHdr = regexp.MustCompile(`^(Read|Write|Previous read|Previous write|Atomic read|Atomic write|Previous atomic read|Previous atomic write) at `)

// collectRaceReports parses the GORACE log files of all workers in dir.
func collectRaceReports(dir string) []raceReport {
	var out []raceReport
	files, _ := filepath.Glob(filepath.Join(dir, "race_w*"))
	sort.Strings(files)
	for _, f := range files {
		data, err := os.ReadFile(f)
		if err != nil {
			continue
		}
		for _, blk := range strings.Split(string(data), "==================") {
			if !strings.Contains(blk, "WARNING: DATA RACE") {
				continue
			}
			if rr, ok := parseRace(blk); ok {
				out = append(out, rr)
			}
		}
	}
	return out
}

type raceSide struct {
	kind   string
	frames []string
}

func parseRace(blk string) (raceReport, bool) {
	lines := strings.Split(blk, "\n")
	var sides []raceSide
	var cur *raceSide
	for _, l := range lines {
		if accessHdr.MatchString(l) {
			sides = append(sides, raceSide{kind: strings.ToLower(strings.SplitN(l, " at ", 2)[0])})
			cur = &sides[len(sides)-1]
			continue
		}
		if strings.HasPrefix(l, "Goroutine ") || strings.TrimSpace(l) == "" {
			if strings.HasPrefix(l, "Goroutine ") {
				cur = nil
			}
			continue
		}
		if cur != nil && strings.HasPrefix(l, "  ") && !strings.HasPrefix(l, "   ") {
			fn := strings.TrimSpace(l)
			if i := strings.LastIndexByte(fn, '('); i > 0 {
				fn = fn[:i]
			}
			cur.frames = append(cur.frames, fn)
		}
	}
	if len(sides) < 2 {
		return raceReport{}, false
	}
	a, aRepo := sideKey(sides[0])
	b, bRepo := sideKey(sides[1])
	if !aRepo && !bRepo {
		return raceReport{Signature: "harness-internal", Text: blk}, true
	}
	keys := []string{a, b}
	sort.Strings(keys)
	return raceReport{Signature: "race/" + keys[0] + "|" + keys[1], Text: strings.TrimSpace(blk)}, true
}

// sideKey names one access: the innermost frame that belongs to spine-go, or "app" when the
// access is made by harness (application) code, possibly through the standard library.
func sideKey(s raceSide) (string, bool) {
	for _, f := range s.frames {
		if strings.Contains(f, "github.com/enbility/spine-go/") {
			short := f[strings.Index(f, "github.com/enbility/spine-go/")+len("github.com/enbility/spine-go/"):]
			// strip generic instantiation noise
			if i := strings.Index(short, "[go.shape"); i > 0 {
				short = short[:i]
			}
			return short, true
		}
		if strings.Contains(f, "verifsim/") {
			return "app", false
		}
	}
	return "app", false
}

func raceRelevant(prop string, rr raceReport) bool {
	if rr.Signature == "harness-internal" {
		return false
	}
	isApp := strings.Contains(rr.Signature, "/app|") || strings.HasSuffix(rr.Signature, "|app")
	switch prop {
	case "C11":
		return isApp
	default:
		return true
	}
}
