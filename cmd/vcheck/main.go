// Command vcheck is the orchestrator behind /verif/check: it instruments the current /repo
// tree into a scratch overlay, builds the simulation binary, fans the runs of one property
// out over worker processes, merges their results, verifies every violation by replaying its
// minimised tape in a fresh process, applies known_findings.json, writes the evidence file
// and exits 0 (held), 1 (VIOLATION) or 2 (tooling trouble, never a violation).
package main

import (
	"bufio"
	"encoding/json"
	"fmt"
	"os"
	"os/exec"
	"path/filepath"
	"runtime"
	"sort"
	"strconv"
	"strings"
	"sync"
	"syscall"
	"time"
)

const verifDir = "/verif"
const repoDir = "/repo"
const goBin = "go1.26.8"

type propCfg struct {
	QuickRuns    int
	QuickBudget  float64 // seconds of worker time
	ThorRuns     int
	ThorBudget   float64
	Race         bool     // also run the race build
	RaceOnly     bool     // only the race build decides
	StmtThorough []string // files with statement-level yields in the thorough tier
	StmtQuick    []string
	Rule         string
	Assumptions  []string
}

var common = []string{
	"sampling, not enumeration: a clean batch is evidence, not proof",
	"the instrumenter's rewrites (sync.Mutex->modelled mutex, go->simrt.Go, time.AfterFunc/NewTicker wrappers, yields before atomics/close) preserve semantics",
	"Go 1.26.8 testing/synctest fake clock and quiescence detection; one fake clock for all nodes (no skew)",
	"reference models in /verif/harness are written from the property statements (DESIGN.md Appendix A)",
	"faults not applicable to this code base (no surface): disk errors, torn/lost writes, full disk, failing syscalls, failing transport writes",
}

var props = map[string]propCfg{}

func def(id string, c propCfg) { props[id] = c }

func init() {
	base := propCfg{QuickRuns: 4000, QuickBudget: 35, ThorRuns: 400000, ThorBudget: 600}
	for _, id := range []string{"C01", "C02", "C03", "C04", "C05", "C06", "C07", "C08", "C09", "C10", "C11", "C12", "C13", "C14", "C15", "C16", "C17", "C20"} {
		c := base
		c.Rule = "one evaluation = one seeded simulated run (generated configuration + operation plan + peer scripts + fault subset + schedule, all from one tape); a run is non-trivial when the scenario's property-specific probe fired (see probes); distinct = distinct canonical event-log hashes among non-trivial runs"
		def(id, c)
	}
	set := func(id string, f func(c *propCfg)) { c := props[id]; f(&c); props[id] = c }
	set("C07", func(c *propCfg) { c.StmtThorough = []string{"spine/entity_local.go"} })
	set("C09", func(c *propCfg) { c.StmtThorough = []string{"spine/binding_manager.go"} })
	set("C12", func(c *propCfg) { c.StmtThorough = []string{"spine/feature_local.go"} })
	set("C14", func(c *propCfg) {
		c.StmtThorough = []string{"spine/feature_local.go"}
		c.StmtQuick = []string{"spine/feature_local.go"}
	})
	set("C13", func(c *propCfg) {
		c.StmtThorough = []string{"spine/send.go"}
		c.StmtQuick = []string{"spine/send.go"}
		c.QuickRuns = 1600
	})
	set("C16", func(c *propCfg) {
		c.StmtThorough = []string{"spine/heartbeat_manager.go"}
		c.StmtQuick = []string{"spine/heartbeat_manager.go"}
	})
	set("C20", func(c *propCfg) { c.StmtThorough = []string{"spine/entity_local.go"} })
	set("C17", func(c *propCfg) { c.Race = true; c.RaceOnly = false; c.QuickRuns = 2000; c.QuickBudget = 45 })
	set("C11", func(c *propCfg) { c.Race = true; c.QuickRuns = 2500 })
}

type finding struct {
	Property  string `json:"property"`
	Signature string `json:"signature"`
	Status    string `json:"status"` // known | fixed
	Commit    string `json:"commit,omitempty"`
	What      string `json:"what"`
}

func fatal2(format string, a ...any) {
	fmt.Fprintf(os.Stderr, "vcheck: "+format+"\n", a...)
	os.Exit(2)
}

func goEnv() []string {
	env := os.Environ()
	env = append(env, "GOFLAGS=-mod=mod", "GOPROXY=off", "GOSUMDB=off", "GOTOOLCHAIN=local", "CGO_ENABLED=1")
	return env
}

func run(dir string, env []string, name string, args ...string) (string, error) {
	cmd := exec.Command(name, args...)
	cmd.Dir = dir
	cmd.Env = env
	out, err := cmd.CombinedOutput()
	return string(out), err
}

func main() {
	if len(os.Args) < 2 {
		fatal2("usage: vcheck <Cxx> quick|thorough | <Cxx> --replay <file> | selftest")
	}
	if os.Args[1] == "selftest" {
		selftest()
		return
	}
	if os.Args[1] == "warm" {
		// warm the build cache: plain and race builds of the instrumented tree
		scratch, err := os.MkdirTemp("", "vcheck-warm-")
		if err != nil {
			fatal2("%v", err)
		}
		doBuild(scratch, false, nil)
		doBuild(scratch, true, nil)
		os.RemoveAll(scratch)
		fmt.Println("warm: ok")
		return
	}
	prop := os.Args[1]
	cfg, ok := props[prop]
	if !ok {
		fatal2("unknown or unclaimed property %s", prop)
	}
	tier := "quick"
	replay := ""
	if len(os.Args) >= 3 {
		switch os.Args[2] {
		case "quick", "thorough":
			tier = os.Args[2]
		case "--replay":
			if len(os.Args) < 4 {
				fatal2("--replay needs a file")
			}
			replay = os.Args[3]
		default:
			fatal2("bad argument %q", os.Args[2])
		}
	}
	if t := os.Getenv("VERIF_TIER"); t == "quick" || t == "thorough" {
		if len(os.Args) < 3 {
			tier = t
		}
	}
	seed := uint64(1)
	if s := os.Getenv("VERIF_SEED"); s != "" {
		if v, err := strconv.ParseUint(s, 10, 64); err == nil {
			seed = v
		} else if v, err := strconv.ParseInt(s, 10, 64); err == nil {
			seed = uint64(v)
		}
	}
	start := time.Now()
	scratch, err := os.MkdirTemp("", "vcheck-"+prop+"-")
	if err != nil {
		fatal2("%v", err)
	}
	defer os.RemoveAll(scratch)
	code := mainProp(prop, cfg, tier, seed, replay, scratch, start)
	os.RemoveAll(scratch)
	os.Exit(code)
}

type build struct {
	race   bool
	stmt   []string
	binary string
	dir    string
}

func shipLogDir() string {
	return filepath.Join(verifDir, "third_party", "ship-go", "logging")
}

// repoLock: tools that patch /repo temporarily (tools/seedrun.sh) hold /tmp/repo.lock while the
// tree is not the committed one; a check started meanwhile waits with its build (the only phase
// that reads /repo) until the tree is back. VERIF_REPO_LOCK_HELD: the caller holds the lock.
func repoLock() func() {
	if os.Getenv("VERIF_REPO_LOCK_HELD") != "" {
		return func() {}
	}
	f, err := os.OpenFile("/tmp/repo.lock", os.O_CREATE|os.O_RDWR, 0o666)
	if err != nil {
		return func() {}
	}
	if err := syscall.Flock(int(f.Fd()), syscall.LOCK_EX); err != nil {
		f.Close()
		return func() {}
	}
	return func() { _ = syscall.Flock(int(f.Fd()), syscall.LOCK_UN); f.Close() }
}

func doBuild(scratch string, race bool, stmt []string) build {
	defer repoLock()()
	name := "plain"
	if race {
		name = "race"
	}
	dir := filepath.Join(scratch, name)
	args := []string{"-out", dir, "-repo", repoDir}
	if len(stmt) > 0 {
		args = append(args, "-stmt", strings.Join(stmt, ","))
	}
	if race {
		args = append(args, "-quietlog", shipLogDir())
	}
	if out, err := run(verifDir, goEnv(), filepath.Join(verifDir, "bin", "instrument"), args...); err != nil {
		fatal2("instrumentation failed: %v\n%s", err, out)
	}
	bin := filepath.Join(dir, "sim.test")
	bargs := []string{"test", "-c", "-vet=off", "-overlay", filepath.Join(dir, "overlay.json"), "-o", bin}
	if race {
		bargs = append(bargs, "-race")
	}
	bargs = append(bargs, "./harness/")
	if out, err := run(verifDir, goEnv(), goBin, bargs...); err != nil {
		fatal2("build failed (%s): %v\n%s", name, err, out)
	}
	return build{race: race, stmt: stmt, binary: bin, dir: dir}
}

type runRec struct {
	Prop       string         `json:"prop"`
	Variant    string         `json:"variant"`
	RunIndex   int            `json:"run_index"`
	RunSeed    uint64         `json:"run_seed"`
	TapeLen    int            `json:"tape_len"`
	LogHash    string         `json:"log_hash"`
	Violations []violation    `json:"violations,omitempty"`
	Probes     map[string]int `json:"probes,omitempty"`
	Faults     map[string]int `json:"faults,omitempty"`
	Steps      int            `json:"steps"`
	Preempts   int            `json:"preempts"`
	Advances   int            `json:"advances"`
	Tasks      int            `json:"tasks"`
	SimUs      int64          `json:"sim_us"`
	States     int            `json:"states"`
	NonTrivial bool           `json:"nontrivial"`
	Strategy   int            `json:"strategy"`
	WallUs     int64          `json:"wall_us"`
	ToolErr    string         `json:"tool_err,omitempty"`
	Log        []string       `json:"log,omitempty"`
}

type violation struct {
	Property  string `json:"property"`
	Signature string `json:"signature"`
	Detail    string `json:"detail"`
	Seq       uint64 `json:"seq"`
}

type replayFile struct {
	Property  string              `json:"property"`
	Variant   string              `json:"variant"`
	Signature string              `json:"signature"`
	Detail    string              `json:"detail"`
	VerifSeed uint64              `json:"verif_seed"`
	RunIndex  int                 `json:"run_index"`
	RunSeed   uint64              `json:"run_seed"`
	Race      bool                `json:"race_build"`
	StmtFiles string              `json:"stmt_files"`
	Tape      map[string][]uint32 `json:"tape"`
	OrigLen   int                 `json:"original_tape_len"`
	Shrinks   int                 `json:"shrink_executions"`
	LogHash   string              `json:"log_hash"`
	Toolchain string              `json:"toolchain"`
	Schedule  []string            `json:"schedule"`
	Choices   []string            `json:"choices"`
}

type line struct {
	Run        *runRec     `json:"run"`
	StateKeys  []string    `json:"state_keys"`
	Replay     *replayFile `json:"replay"`
	Recheck    bool        `json:"recheck"`
	OK         bool        `json:"ok"`
	WorkerDone bool        `json:"worker_done"`
	Runs       int         `json:"runs"`
	RaceErrors int         `json:"race_errors"`
	Sample     *runRec     `json:"sample"`
	RaceReport *raceReport `json:"race_report"`
}

type raceReport struct {
	Signature string `json:"signature"`
	Text      string `json:"text"`
	RunIndex  int    `json:"run_index"`
}

type agg struct {
	runs, nontrivial, toolErrs int
	hashes                     map[string]struct{}
	states                     map[string]struct{}
	probes, faults             map[string]int
	steps, preempts, advances  int64
	simUs, wallUs              int64
	rechecks, recheckBad       int
	replays                    []*replayFile
	samples                    []*runRec
	toolErrSamples             []string
	variants                   map[string]int
	strategies                 map[int]int
	violRuns                   int
	tasks                      int64
	raceErrors                 int
}

func newAgg() *agg {
	return &agg{hashes: map[string]struct{}{}, states: map[string]struct{}{}, probes: map[string]int{}, faults: map[string]int{},
		variants: map[string]int{}, strategies: map[int]int{}}
}

func (a *agg) readFile(path string) {
	f, err := os.Open(path)
	if err != nil {
		return
	}
	defer f.Close()
	sc := bufio.NewScanner(f)
	sc.Buffer(make([]byte, 1<<20), 64<<20)
	for sc.Scan() {
		var l line
		if err := json.Unmarshal(sc.Bytes(), &l); err != nil {
			continue
		}
		switch {
		case l.Run != nil:
			r := l.Run
			a.runs++
			a.variants[r.Variant]++
			a.strategies[r.Strategy]++
			if r.ToolErr != "" {
				a.toolErrs++
				if len(a.toolErrSamples) < 2 {
					te := r.ToolErr
					if len(te) > 1500 {
						te = te[:1500] + " ..."
					}
					a.toolErrSamples = append(a.toolErrSamples, fmt.Sprintf("run %d (%s): %s", r.RunIndex, r.Variant, te))
				}
			}
			if r.NonTrivial {
				a.nontrivial++
				a.hashes[r.LogHash] = struct{}{}
			}
			for _, k := range l.StateKeys {
				a.states[k] = struct{}{}
			}
			for k, v := range r.Probes {
				a.probes[k] += v
			}
			for k, v := range r.Faults {
				a.faults[k] += v
			}
			a.steps += int64(r.Steps)
			a.preempts += int64(r.Preempts)
			a.advances += int64(r.Advances)
			a.simUs += r.SimUs
			a.wallUs += r.WallUs
			a.tasks += int64(r.Tasks)
			if len(r.Violations) > 0 {
				a.violRuns++
			}
			if len(a.samples) < 3 && r.NonTrivial && len(r.Log) > 0 {
				a.samples = append(a.samples, r)
			}
		case l.Sample != nil:
			if len(a.samples) < 3 {
				a.samples = append(a.samples, l.Sample)
			}
		case l.Replay != nil:
			a.replays = append(a.replays, l.Replay)
		case l.Recheck:
			a.rechecks++
			if !l.OK {
				a.recheckBad++
			}
		case l.WorkerDone:
			a.raceErrors += l.RaceErrors
		}
	}
}

func loadFindings() []finding {
	var f struct {
		Findings []finding `json:"findings"`
	}
	data, err := os.ReadFile(filepath.Join(verifDir, "known_findings.json"))
	if err != nil {
		return nil
	}
	if err := json.Unmarshal(data, &f); err != nil {
		fatal2("known_findings.json: %v", err)
	}
	return f.Findings
}

func runWorkers(b build, prop string, seed uint64, runs int, budget float64, workers int, outDir string, extraEnv []string) []string {
	os.MkdirAll(outDir, 0o755)
	var wg sync.WaitGroup
	var files []string
	var mu sync.Mutex
	failed := []string{}
	for i := 0; i < workers; i++ {
		out := filepath.Join(outDir, fmt.Sprintf("w%02d.jsonl", i))
		files = append(files, out)
		wg.Add(1)
		go func(i int, out string) {
			defer wg.Done()
			cmd := exec.Command(b.binary, "-test.run", "^TestSim$", "-test.cpu", "1", "-test.timeout", "6h")
			cmd.Dir = b.dir
			cmd.Env = append(os.Environ(),
				"VERIF_PROP="+prop, fmt.Sprintf("VERIF_SEED=%d", seed), fmt.Sprintf("VERIF_RUNS=%d", runs),
				fmt.Sprintf("VERIF_WORKER=%d", i), fmt.Sprintf("VERIF_WORKERS=%d", workers), "VERIF_OUT="+out,
				fmt.Sprintf("VERIF_BUDGET_S=%f", budget), "VERIF_STMT="+strings.Join(b.stmt, ","),
				"GORACE=halt_on_error=0 log_path="+filepath.Join(outDir, fmt.Sprintf("race_w%02d", i)),
				"GOMAXPROCS=2")
			cmd.Env = append(cmd.Env, extraEnv...)
			done := make(chan error, 1)
			var outb []byte
			go func() {
				var err error
				outb, err = cmd.CombinedOutput()
				done <- err
			}()
			// real-time watchdog: only ever produces exit 2
			limit := time.Duration(budget*4+600) * time.Second // (generous: the machine may be shared with other jobs; workers stop by themselves at the budget)
			select {
			case err := <-done:
				if err != nil && b.race && workerCompleted(out) {
					// the testing package fails a test in whose process the race detector reported
					// something; the reports are collected from the GORACE log, the runs are complete
					err = nil
				}
				if err != nil {
					mu.Lock()
					failed = append(failed, fmt.Sprintf("worker %d: %v\n%s", i, err, tail(string(outb), 60)))
					mu.Unlock()
				}
			case <-time.After(limit):
				_ = cmd.Process.Kill()
				mu.Lock()
				failed = append(failed, fmt.Sprintf("worker %d: watchdog after %v", i, limit))
				mu.Unlock()
			}
		}(i, out)
	}
	wg.Wait()
	if len(failed) > 0 {
		fatal2("worker trouble (tooling, not a violation):\n%s", strings.Join(failed, "\n"))
	}
	return files
}

// workerCompleted reports whether the worker wrote its final line.
func workerCompleted(out string) bool {
	data, err := os.ReadFile(out)
	if err != nil {
		return false
	}
	return strings.Contains(string(data), "\"worker_done\":true")
}

func tail(s string, n int) string {
	l := strings.Split(s, "\n")
	if len(l) > n {
		l = l[len(l)-n:]
	}
	return strings.Join(l, "\n")
}

// verifyReplay replays rf in a fresh process and requires the same signature and log hash.
func verifyReplay(b build, path string, dump bool) (status string, raw string) {
	cmd := exec.Command(b.binary, "-test.run", "^TestSim$", "-test.cpu", "1")
	cmd.Dir = b.dir
	var rf replayFile
	data, _ := os.ReadFile(path)
	_ = json.Unmarshal(data, &rf)
	cmd.Env = append(os.Environ(), "VERIF_PROP="+rf.Property, "VERIF_REPLAY="+path, "GOMAXPROCS=2",
		"GORACE=halt_on_error=0 log_path="+filepath.Join(b.dir, "race_replay"))
	if dump {
		cmd.Env = append(cmd.Env, "VERIF_DUMP=1")
	}
	out, err := cmd.CombinedOutput()
	if err != nil {
		return "error", string(out)
	}
	for _, l := range strings.Split(string(out), "\n") {
		if strings.Contains(l, "replay_result") {
			var m map[string]any
			if json.Unmarshal([]byte(l), &m) == nil {
				s, _ := m["replay_result"].(string)
				return s, string(out)
			}
		}
	}
	return "no-result", string(out)
}

func mainProp(prop string, cfg propCfg, tier string, seed uint64, replay, scratch string, start time.Time) int {
	stmt := cfg.StmtQuick
	runs, budget := cfg.QuickRuns, cfg.QuickBudget
	if tier == "thorough" {
		stmt = cfg.StmtThorough
		runs, budget = cfg.ThorRuns, cfg.ThorBudget
	}
	if v := os.Getenv("VERIF_BUDGET_S"); v != "" {
		if f, err := strconv.ParseFloat(v, 64); err == nil {
			budget = f
		}
	}
	if v := os.Getenv("VERIF_RUNS"); v != "" {
		if n, err := strconv.Atoi(v); err == nil {
			runs = n
		}
	}

	if replay != "" {
		if abs, err := filepath.Abs(replay); err == nil {
			replay = abs
		}
		data, err := os.ReadFile(replay)
		if err != nil {
			fatal2("%v", err)
		}
		var rf replayFile
		if err := json.Unmarshal(data, &rf); err != nil {
			fatal2("replay file: %v", err)
		}
		var st []string
		if rf.StmtFiles != "" {
			st = strings.Split(rf.StmtFiles, ",")
		}
		b := doBuild(scratch, rf.Race, st)
		status, raw := verifyReplay(b, replay, true)
		fmt.Print(raw)
		switch status {
		case "reproduced":
			fmt.Printf("VIOLATION property=%s replay=%s\n", rf.Property, replay)
			return 1
		case "not-reproduced":
			fmt.Printf("replay: violation %s not reproduced on the current tree\n", rf.Signature)
			return 0
		default:
			fmt.Printf("replay diverged: %s\n", status)
			return 2
		}
	}

	workers := runtime.NumCPU()
	if workers > 16 {
		workers = 16
	}
	a := newAgg()
	var builds []build
	wantPlain := !cfg.RaceOnly
	if wantPlain {
		b := doBuild(scratch, false, stmt)
		builds = append(builds, b)
	}
	if cfg.Race {
		builds = append(builds, doBuild(scratch, true, stmt))
	}
	buildS := time.Since(start).Seconds()
	var raceReports []raceReport
	for bi, b := range builds {
		bud := budget
		r := runs
		if len(builds) > 1 {
			bud = budget / 2
			if b.race {
				r = runs / 3
			}
		}
		out := filepath.Join(scratch, fmt.Sprintf("out%d", bi))
		files := runWorkers(b, prop, seed, r, bud, workers, out, nil)
		for _, f := range files {
			a.readFile(f)
		}
		if b.race {
			raceReports = append(raceReports, collectRaceReports(out)...)
		}
	}

	toolTrouble := false
	if a.toolErrs > 0 || a.recheckBad > 0 {
		// (not a verdict by itself: a violation of another run that replays exactly in a fresh
		// process is still reported below; without one the check ends with exit 2)
		fmt.Fprintf(os.Stderr, "vcheck: %d runs with tooling errors, %d determinism re-executions diverged:\n  %s\n", a.toolErrs, a.recheckBad,
			strings.Join(a.toolErrSamples, "\n  "))
		toolTrouble = true
	}
	if a.runs == 0 {
		fatal2("no runs executed")
	}

	// triage violations
	findings := loadFindings()
	known := map[string]finding{}
	for _, f := range findings {
		if f.Property == prop && f.Status == "known" {
			known[f.Signature] = f
		}
	}
	bySig := map[string]*replayFile{}
	// further candidates per signature (other runs that showed it): used, un-minimised, when the
	// preferred one does not replay exactly (a change that makes some runs depend on map order)
	alt := map[string][]*replayFile{}
	for _, r := range a.replays {
		if o := bySig[r.Signature]; o == nil || tapeLen(r.Tape) < tapeLen(o.Tape) {
			bySig[r.Signature] = r
		}
		if len(alt[r.Signature]) < 6 {
			alt[r.Signature] = append(alt[r.Signature], r)
		}
	}
	var sigs []string
	for s := range bySig {
		sigs = append(sigs, s)
	}
	sort.Strings(sigs)
	exit := 0
	newViol := 0
	knownHit := map[string]bool{}
	os.MkdirAll(filepath.Join(verifDir, "replays"), 0o755)
	// replay files of earlier invocations for this property are stale
	if old, _ := filepath.Glob(filepath.Join(verifDir, "replays", prop+"-*.json")); true {
		for _, f := range old {
			os.Remove(f)
		}
	}
	// minimise the tapes of new signatures in parallel (at most 8 jobs)
	{
		var wg sync.WaitGroup
		var mu sync.Mutex
		jobs := 0
		for _, s := range sigs {
			if _, ok := known[s]; ok || jobs >= 8 {
				continue
			}
			jobs++
			rf := bySig[s]
			var b build
			for _, x := range builds {
				if x.race == rf.Race {
					b = x
				}
			}
			wg.Add(1)
			go func(s string, rf *replayFile, b build) {
				defer wg.Done()
				if m := shrinkReplay(b, rf, scratch); m != nil {
					mu.Lock()
					bySig[s] = m
					mu.Unlock()
				}
			}(s, rf, b)
		}
		wg.Wait()
	}
	for _, s := range sigs {
		rf := bySig[s]
		if f, ok := known[s]; ok {
			if !knownHit[s] {
				fmt.Printf("KNOWN-FINDING: property=%s %s [%s]\n", prop, f.What, s)
				knownHit[s] = true
			}
			continue
		}
		// minimise (one job per new signature), then verify in a fresh process before reporting
		name := fmt.Sprintf("%s-%d-%s.json", prop, rf.RunSeed, sanitize(s))
		path := filepath.Join(verifDir, "replays", name)
		var b build
		for _, x := range builds {
			if x.race == rf.Race {
				b = x
			}
		}
		data, _ := json.MarshalIndent(rf, "", " ")
		if err := os.WriteFile(path, data, 0o644); err != nil {
			fatal2("%v", err)
		}
		status, raw := verifyReplay(b, path, false)
		for _, c := range alt[s] {
			if status == "reproduced" {
				break
			}
			if c.RunSeed == rf.RunSeed {
				continue
			}
			fmt.Fprintf(os.Stderr, "vcheck: replay of %s (run %d) diverged (%s), trying run %d\n", s, rf.RunIndex, status, c.RunIndex)
			os.Remove(path)
			rf = c
			name = fmt.Sprintf("%s-%d-%s.json", prop, rf.RunSeed, sanitize(s))
			path = filepath.Join(verifDir, "replays", name)
			data, _ = json.MarshalIndent(rf, "", " ")
			if err := os.WriteFile(path, data, 0o644); err != nil {
				fatal2("%v", err)
			}
			status, raw = verifyReplay(b, path, false)
		}
		if status != "reproduced" {
			fmt.Fprintf(os.Stderr, "vcheck: replay of %s diverged in a fresh process (%s) - tooling trouble, not reported as violation\n%s\n", s, status, tail(raw, 20))
			toolTrouble = true
			os.Remove(path)
			continue
		}
		fmt.Printf("VIOLATION property=%s replay=%s\n", prop, path)
		fmt.Printf("  signature: %s\n  %s\n", s, firstLine(rf.Detail))
		newViol++
		exit = 1
	}
	// race reports (C17 / C11)
	raceSigs := map[string]raceReport{}
	for _, rr := range raceReports {
		if _, ok := raceSigs[rr.Signature]; !ok {
			raceSigs[rr.Signature] = rr
		}
	}
	var rsigs []string
	for s := range raceSigs {
		rsigs = append(rsigs, s)
	}
	sort.Strings(rsigs)
	for _, s := range rsigs {
		rr := raceSigs[s]
		if !raceRelevant(prop, rr) {
			continue
		}
		if f, ok := known[s]; ok {
			if !knownHit[s] {
				fmt.Printf("KNOWN-FINDING: property=%s %s [%s]\n", prop, f.What, s)
				knownHit[s] = true
			}
			continue
		}
		name := fmt.Sprintf("%s-race-%s.json", prop, sanitize(s))
		path := filepath.Join(verifDir, "replays", name)
		data, _ := json.MarshalIndent(map[string]any{"property": prop, "signature": s, "race_report": rr.Text, "verif_seed": seed,
			"replay_hint": "re-run: VERIF_SEED=" + fmt.Sprint(seed) + " ./check " + prop + " " + tier}, "", " ")
		_ = os.WriteFile(path, data, 0o644)
		fmt.Printf("VIOLATION property=%s replay=%s\n", prop, path)
		fmt.Printf("  signature: %s\n", s)
		newViol++
		exit = 1
	}

	writeEvidence(prop, cfg, tier, seed, a, start, buildS, newViol, len(knownHit), stmt, builds, rsigs)
	wall := time.Since(start).Seconds()
	fmt.Printf("%s %s: %d runs (%d non-trivial, %d distinct), %d steps, %d preemptions, %.1fs simulated, %d new violation signature(s), %d known finding(s), wall %.1fs\n",
		prop, tier, a.runs, a.nontrivial, len(a.hashes), a.steps, a.preempts, float64(a.simUs)/1e6, newViol, len(knownHit), wall)
	if exit == 0 && toolTrouble {
		fmt.Fprintf(os.Stderr, "vcheck: tooling trouble and no verified violation: exit 2\n")
		return 2
	}
	return exit
}

// shrinkReplay runs the tape minimiser for one candidate in a separate process.
func shrinkReplay(b build, rf *replayFile, scratch string) *replayFile {
	in := filepath.Join(scratch, "cand-"+sanitize(rf.Signature)+".json")
	out := filepath.Join(scratch, "min-"+sanitize(rf.Signature)+".jsonl")
	data, _ := json.Marshal(rf)
	if os.WriteFile(in, data, 0o644) != nil {
		return nil
	}
	cmd := exec.Command(b.binary, "-test.run", "^TestSim$", "-test.cpu", "1", "-test.timeout", "30m")
	cmd.Dir = b.dir
	cmd.Env = append(os.Environ(), "VERIF_PROP="+rf.Property, "VERIF_SHRINK="+in, "VERIF_OUT="+out, "GOMAXPROCS=2", "VERIF_SHRINK_S="+shrinkBudget(),
		"GORACE=halt_on_error=0 log_path="+filepath.Join(b.dir, "race_shrink"))
	if o, err := cmd.CombinedOutput(); err != nil {
		fmt.Fprintf(os.Stderr, "vcheck: minimiser failed for %s (keeping the original tape): %v\n%s\n", rf.Signature, err, tail(string(o), 10))
		return nil
	}
	f, err := os.Open(out)
	if err != nil {
		return nil
	}
	defer f.Close()
	sc := bufio.NewScanner(f)
	sc.Buffer(make([]byte, 1<<20), 256<<20)
	for sc.Scan() {
		var l line
		if json.Unmarshal(sc.Bytes(), &l) == nil && l.Replay != nil {
			return l.Replay
		}
	}
	return nil
}

func tapeLen(t map[string][]uint32) int {
	n := 0
	for _, v := range t {
		n += len(v)
	}
	return n
}

func shrinkBudget() string {
	if v := os.Getenv("VERIF_SHRINK_S"); v != "" {
		return v
	}
	return "60"
}

func firstLine(s string) string {
	if i := strings.IndexByte(s, '\n'); i >= 0 {
		return s[:i]
	}
	return s
}

func sanitize(s string) string {
	var b strings.Builder
	for _, r := range s {
		if (r >= 'a' && r <= 'z') || (r >= 'A' && r <= 'Z') || (r >= '0' && r <= '9') || r == '-' || r == '_' || r == '.' {
			b.WriteRune(r)
		} else {
			b.WriteByte('_')
		}
	}
	out := b.String()
	if len(out) > 100 {
		out = out[:100]
	}
	return out
}

func writeEvidence(prop string, cfg propCfg, tier string, seed uint64, a *agg, start time.Time, buildS float64, newViol, knownHit int, stmt []string, builds []build, raceSigs []string) {
	wall := time.Since(start).Seconds()
	var samples []any
	for _, s := range a.samples {
		lg := s.Log
		if len(lg) > 80 {
			lg = append(append([]string(nil), lg[:80]...), fmt.Sprintf("... (%d more events)", len(s.Log)-80))
		}
		samples = append(samples, map[string]any{"variant": s.Variant, "run_index": s.RunIndex, "run_seed": s.RunSeed, "steps": s.Steps, "preemptions": s.Preempts,
			"probes": s.Probes, "faults": s.Faults, "event_log": lg})
	}
	if len(samples) == 0 {
		samples = append(samples, map[string]any{"note": "no non-trivial sample captured in this run"})
	}
	runsPerHour := 0.0
	if wall > buildS {
		runsPerHour = float64(a.runs) / (wall - buildS) * 3600
	}
	var kinds []string
	for _, b := range builds {
		if b.race {
			kinds = append(kinds, "race")
		} else {
			kinds = append(kinds, "plain")
		}
	}
	var zero []string
	for _, p := range expectedProbes[prop] {
		if a.probes[p] == 0 {
			zero = append(zero, p)
		}
	}
	ev := map[string]any{
		"property_id": prop,
		"tier":        tier,
		"seed":        int64(seed & 0x7fffffffffffffff),
		"level":       "exploration",
		"coverage": map[string]any{
			"evaluations":                a.runs,
			"distinct_nontrivial":        len(a.hashes),
			"rule":                       cfg.Rule,
			"samples":                    samples,
			"states":                     len(a.states),
			"nontrivial_runs":            a.nontrivial,
			"scheduling_steps":           a.steps,
			"preemptions":                a.preempts,
			"clock_advances":             a.advances,
			"tasks_created":              a.tasks,
			"simulated_seconds":          float64(a.simUs) / 1e6,
			"runs_per_hour":              runsPerHour,
			"run_seed_derivation":        "runSeed = splitmix(splitmix(VERIF_SEED ^ fnv(property)) + runIndex*phi), runIndex in [0, evaluations)",
			"faults_fired":               a.faults,
			"faults_not_applicable":      []string{"disk errors", "torn/lost writes", "full disk", "failing syscalls/allocations", "failing transport writes (writer interface has no error result)", "per-node clock skew (single fake clock)"},
			"probes":                     a.probes,
			"probes_expected_but_zero":   zero,
			"variants":                   a.variants,
			"strategies":                 map[string]int{"run-to-completion+preemptions": a.strategies[0], "random-walk": a.strategies[1], "pct": a.strategies[2]},
			"determinism_reexecutions":   a.rechecks,
			"determinism_mismatches":     a.recheckBad,
			"builds":                     kinds,
			"statement_level_preemption": stmt,
			"components_real":            []string{"spine.DeviceLocal and everything below it (entities, features, function data, subscription/binding/heartbeat managers, senders, event bus), model package, instrumented from the current /repo tree"},
			"components_stub":            []string{"SHIP transport (simulated network implementing ShipConnectionDataWriterInterface / driving ShipConnectionDataReaderInterface)", peersStub(a.variants)},
			"new_violation_signatures":   newViol,
			"known_findings_hit":         knownHit,
			"race_report_signatures":     raceSigs,
			"distinct_states_measure":    "hash of the scenario's reference-model state / history shape after the run",
			"violating_runs":             a.violRuns,
		},
		"assumptions": append(append([]string(nil), common...), cfg.Assumptions...),
		"wall_s":      wall,
		"violations":  newViol,
	}
	data, _ := json.MarshalIndent(ev, "", " ")
	evDir := filepath.Join(verifDir, "evidence")
	if d := os.Getenv("VERIF_EVIDENCE_DIR"); d != "" {
		// (sensitivity experiments against a modified tree must not overwrite the evidence)
		evDir = d
	}
	os.MkdirAll(evDir, 0o755)
	if err := os.WriteFile(filepath.Join(evDir, prop+".json"), data, 0o644); err != nil {
		fatal2("%v", err)
	}
	if len(zero) > 0 {
		fmt.Printf("warning: probes stuck at zero: %s\n", strings.Join(zero, ", "))
	}
}

// expectedProbes lists probes that a healthy batch must hit (reported in evidence when zero).
var expectedProbes = map[string][]string{
	"C01": {"c01-request-checked", "c01-protected-write-bound-true", "c01-protected-write-bound-false", "c01-request-from-second-feature-of-same-type-and-role", "c01-dst-device-omitted", "c01-dst-device-other", "mirror-responses-counted"},
	"C02": {"c02-update-compared", "c02-fn-networkManagementEntityDescriptionListData", "c02-fn-measurementSeriesListData", "c02-selector-names-list-valued-element", "c02-shape-delete-elements+partial-selector", "c02-delete-selector-names-part-of-identifier"},
	"C03": {"write-authorised", "write-unauthorised", "write-notified-subscriber", "write-source-device-omitted", "peer-announced-known-entity-again", "write-function-element-names-function-of-other-writability", "actor-delete-omits-client-device"},
	"C04": {"c04-write-accepted", "c04-write-rejected", "c04-twin-checked", "c04-protected-element-present", "c04-shape-delete-selector+partial-selector", "c04-stored-element-without-identifier", "c04c-race-checked", "c04c-write-overlapped-local-update"},
	"C05": {"c05-mutated-message-handled", "c05-node-management-registry-call", "c05-messages-before-discovery", "c05-probe-read-answered", "c05-function-element-names-another-function", "gen-structured-selector-member", "c05-discovery-read-during-traffic"},
	"C06": {"c06-add-and-remove-in-one-notification", "c06-remove-unknown-entity", "c06-repeated-announcement", "mirror-tree-compared", "mirror-use-cases-compared", "mirror-link-restored", "mirror-tree-change"},
	"C07": {"goaf-calls-overlapped", "c07-discovery-reply-checked", "c07-read-overlapped-tree-change", "c07-subscription-before-discovery-reply", "c07-other-peer-unsubscribed", "c07-subscription-repeated", "c07-description-changed"},
	"C08": {"fanout-notify-to-subscriber", "reg-server-device-omitted", "duplicate-subscribe-refused", "entity-removal-names-unknown-entity-first", "c08r-payload-compared", "mirror-data-compared", "mirror-write", "c08-left-before-discovery", "reg-delete-names-other-device", "c08r-remote-write-accepted"},
	"C09": {"bind-granted", "two-bind-requests-for-one-feature-overlapped", "reg-server-device-omitted", "reg-requested-type-differs", "reg-delete-names-other-device"},
	"C10": {"teardown-with-state", "approval-verdict-given", "approval-left-pending", "mirror-teardown-observed", "c10-address-less-peer-removed-with-pending-write", "peers-with-prefix-related-device-addresses"},
	"C11": {"c11-snapshot-verified", "c11-non-persisting-update-checked", "c11-reader-pass", "c11h-snapshot-verified", "c11-refused-write-checked"},
	"C12": {"c12-expect-applied", "c12-expect-error", "verdict-overlapped-timeout", "several-writes-on-one-feature", "c12r-second-write-partly-approved", "c12r-first-write-partly-approved", "c12d-later-round-decided", "c12d-later-round-refused", "c12t-write-decided", "c12t-write-approved"},
	"C13": {"c13-overlapping-sends", "c13w-request-from-callback", "c13w-request-withheld", "more-than-64-unanswered-requests", "more-than-100-notifications", "c13-response-references-a-notification", "c13-many-answered-requests-first"},
	"C14": {"c14-callback-fired-once", "c14-registration-overlapped-arrival", "c14-key-shared-between-peers", "c14-bystander-removed", "mirror-callback-fired-once", "mirror-answer-overtook-registration", "c14-many-result-callbacks"},
	"C15": {"c15-delivery-checked", "c15-subscription-change-overlapped-publish", "c15-unsubscribe-inside-handler", "c15-last-peer-removed", "c15-core-handler-unsubscribed-inside-handler"},
	"C16": {"c16-refresh-observed", "c16-running-span-checked", "c16-stopped-at-end-checked", "c16-announced-timeout-below-configured", "mirror-heartbeat-received", "mirror-heartbeat-span-checked", "mirror-heartbeat-cache-compared"},
	"C17": {"c17-api-calls", "c17-approval-callback", "c17-hot-write", "c17-description-changed", "c17-discovery-read"},
	"C20": {"c20-concurrent-entities", "c20-has-checked", "c20-peer-read-checked"},
}

// peersStub says which peers of the runs were stubs: in the mirror-* variants both nodes are real.
func peersStub(variants map[string]int) string {
	mirror, other := 0, 0
	for v, n := range variants {
		if strings.HasPrefix(v, "mirror-") {
			mirror += n
		} else {
			other += n
		}
	}
	if mirror == 0 {
		return "scripted peers (harness code emitting datagrams built with the repo's model types); no second real node in the variants of this run"
	}
	return fmt.Sprintf("scripted peers (harness code emitting datagrams built with the repo's model types) in %d runs; in %d runs (variants mirror-*) the peer is a second real spine.DeviceLocal and nothing but the transport is a stub", other, mirror)
}
