package simrt

import "sort"

// Lock-order tracking (phase 1 of the deadlock-directed search, after Joshi et al.,
// "A Randomized Dynamic Program Analysis Technique for Detecting Real Deadlocks", PLDI 2009):
// every grant of a modelled lock to a task that already holds another one records an edge
// held -> acquired with the two call sites. Two edges A->B and B->A of different tasks without
// a common gate lock are a *candidate*; it is never reported, the harness re-executes the run
// with a scheduler that tries to turn the candidate into a real deadlock (which the modelled
// locks then show as a state with blocked tasks and nothing enabled).

// HeldLock is a lock a task holds.
type HeldLock struct {
	Key   any // *Mutex or *RWMutex
	Site  string
	Write bool
}

// LockEdge: task Task acquired To at ToSite while holding From (acquired at FromSite).
type LockEdge struct {
	From, To           any
	FromSite, ToSite   string
	FromWrite, ToWrite bool
	Task               int
	Gates              []any
}

// LockCycle is a candidate: two tasks took two locks in opposite orders.
type LockCycle struct {
	// task 1 holds the lock it acquired at H1 and acquires at S1; task 2 the same with H2, S2
	H1, S1, H2, S2 string
}

//go:norace
func (c LockCycle) Key() string { return c.H1 + ">" + c.S1 + "|" + c.H2 + ">" + c.S2 }

//go:norace
func (s *Sched) noteAcquire(t *Task, key any, site string, write bool) {
	if t == nil || t == nonTask {
		return
	}
	for i, h := range t.Held {
		if h.Key == key {
			continue
		}
		var gates []any
		for j, g := range t.Held {
			if j != i {
				gates = append(gates, g.Key)
			}
		}
		dup := false
		for _, e := range s.LockEdges {
			if e.From == h.Key && e.To == key && e.Task == t.ID && e.FromSite == h.Site && e.ToSite == site {
				dup = true
				break
			}
		}
		if !dup && len(s.LockEdges) < 4096 {
			s.LockEdges = append(s.LockEdges, LockEdge{From: h.Key, To: key, FromSite: h.Site, ToSite: site, FromWrite: h.Write, ToWrite: write, Task: t.ID, Gates: gates})
		}
	}
	t.Held = append(t.Held, HeldLock{Key: key, Site: site, Write: write})
}

//go:norace
func (s *Sched) noteRelease(t *Task, key any) {
	if t == nil || t == nonTask {
		return
	}
	for i := len(t.Held) - 1; i >= 0; i-- {
		if t.Held[i].Key == key {
			t.Held = append(t.Held[:i:i], t.Held[i+1:]...)
			return
		}
	}
}

// LockCycles returns the candidates of this run (deduplicated by their four sites, sorted).
//
//go:norace
func (s *Sched) LockCycles() []LockCycle {
	seen := map[string]bool{}
	var out []LockCycle
	for i, a := range s.LockEdges {
		for j, b := range s.LockEdges {
			if i >= j || a.Task == b.Task || a.From != b.To || a.To != b.From {
				continue
			}
			// two read acquisitions of one RWMutex do not exclude each other
			if !(a.FromWrite || b.ToWrite) || !(a.ToWrite || b.FromWrite) {
				continue
			}
			gated := false
			for _, g := range a.Gates {
				for _, h := range b.Gates {
					if g == h {
						gated = true
					}
				}
			}
			if gated {
				continue
			}
			c := LockCycle{H1: a.FromSite, S1: a.ToSite, H2: b.FromSite, S2: b.ToSite}
			if c.H2+c.S2 < c.H1+c.S1 {
				c = LockCycle{H1: b.FromSite, S1: b.ToSite, H2: a.FromSite, S2: a.ToSite}
			}
			if !seen[c.Key()] {
				seen[c.Key()] = true
				out = append(out, c)
			}
		}
	}
	sort.Slice(out, func(i, j int) bool { return out[i].Key() < out[j].Key() })
	return out
}

// LockIntent reports, for a parked task about to acquire a lock, the site of the acquisition
// and the sites at which it acquired the locks it holds.
//
// LockSite: the site of the lock operation t is parked at (whatever it holds).
//
//go:norace
func (s *Sched) LockSite(t *Task) (string, bool) {
	if t.state != tsParked || (t.op != opLock && t.op != opRLock) {
		return "", false
	}
	return t.opLoc, true
}

//go:norace
func (s *Sched) LockIntent(t *Task) (site string, held []string, ok bool) {
	if t.state != tsParked || (t.op != opLock && t.op != opRLock) || len(t.Held) == 0 {
		return "", nil, false
	}
	for _, h := range t.Held {
		held = append(held, h.Site)
	}
	return t.opLoc, held, true
}
