package simrt

import (
	"time"
)

// Replacements for time.NewTimer / time.Sleep / time.After and sync.Once / sync.WaitGroup in
// the instrumented tree. The pinned tree uses none of them; a change to it may, and the check
// must then still run (instead of ending as tooling trouble). All of them live on the bubble's
// fake clock; what the scheduler needs is to know the instants at which something becomes due
// (so that it can move the clock there) and to see blocking as "task not enabled".

// Timer replaces *time.Timer as returned by time.NewTimer.
type Timer struct {
	C        <-chan time.Time
	t        *time.Timer
	deadline time.Time
	armed    bool
	owner    *Task
}

//go:norace
func NewTimer(loc string, d time.Duration) *Timer {
	rt := time.NewTimer(d)
	tm := &Timer{C: rt.C, t: rt, deadline: time.Now().Add(d), armed: true}
	if s := active.Load(); s != nil && !s.aborting {
		tm.owner = s.self()
		raceDisable()
		s.tabMu.Lock()
		s.timers = append(s.timers, tm)
		s.tabMu.Unlock()
		raceEnable()
	}
	return tm
}

//go:norace
func (t *Timer) Reset(d time.Duration) bool {
	t.deadline = time.Now().Add(d)
	t.armed = true
	return t.t.Reset(d)
}

//go:norace
func (t *Timer) Stop() bool {
	t.armed = false
	return t.t.Stop()
}

// addDeadline registers an instant at which a sleeping or selecting task becomes runnable.
//
//go:norace
func (s *Sched) addDeadline(at time.Time) {
	raceDisable()
	s.tabMu.Lock()
	s.deadlines = append(s.deadlines, at)
	s.tabMu.Unlock()
	raceEnable()
}

// Sleep replaces time.Sleep: the task is not enabled until the fake clock has passed the instant.
//
//go:norace
func Sleep(loc string, d time.Duration) {
	s := active.Load()
	if s == nil {
		time.Sleep(d)
		return
	}
	if s.aborting {
		s.exitIfTask()
		return
	}
	if s.self() == nil {
		time.Sleep(d)
		return
	}
	until := time.Now().Add(d)
	s.addDeadline(until)
	WaitUntil("sleep@"+loc, func() bool { return !time.Now().Before(until) })
}

// After replaces time.After (used in select statements: the task blocks natively).
//
//go:norace
func After(loc string, d time.Duration) <-chan time.Time {
	if s := active.Load(); s != nil && !s.aborting {
		s.addDeadline(time.Now().Add(d))
	}
	return time.After(d)
}

// extraEvents: the earliest armed Timer or registered deadline after now.
//
//go:norace
func (s *Sched) extraEvents(now time.Time) (at time.Time, ok bool) {
	raceDisable()
	s.tabMu.Lock()
	tms := s.timers
	dls := s.deadlines
	s.tabMu.Unlock()
	raceEnable()
	for _, t := range tms {
		if !t.armed || (t.owner != nil && t.owner.Done()) {
			continue
		}
		if !t.deadline.After(now) {
			continue // fired: the value sits in the channel
		}
		if !ok || t.deadline.Before(at) {
			at, ok = t.deadline, true
		}
	}
	for _, d := range dls {
		if d.After(now) && (!ok || d.Before(at)) {
			at, ok = d, true
		}
	}
	return
}

// Once replaces sync.Once: a second caller waits as a task that is not enabled, not inside a
// real mutex.
type Once struct {
	m    Mutex
	done bool
}

//go:norace
func (o *Once) Do(f func()) {
	if o.done {
		return
	}
	o.m.Lock()
	defer o.m.Unlock()
	if !o.done {
		defer func() { o.done = true }()
		f()
	}
}

// WaitGroup replaces sync.WaitGroup.
type WaitGroup struct {
	n int
}

//go:norace
func (g *WaitGroup) Add(d int) {
	g.n += d
	if g.n < 0 {
		panic("sync: negative WaitGroup counter")
	}
}

//go:norace
func (g *WaitGroup) Done() { g.Add(-1) }

//go:norace
func (g *WaitGroup) Wait() {
	s := active.Load()
	if s == nil || s.aborting || s.self() == nil {
		if s != nil && s.aborting {
			s.exitIfTask()
		}
		return
	}
	if g.n == 0 {
		Yield("waitgroup")
		return
	}
	WaitUntil("waitgroup", func() bool { return g.n == 0 })
}
