// Package simrt is the runtime the instrumented spine-go tree is linked against.
//
// With no scheduler installed every primitive behaves like the standard one it replaces
// (sync.Mutex, go statement, time.AfterFunc, time.NewTicker), so the instrumented tree is
// semantically the original tree. With a scheduler installed (inside a testing/synctest
// bubble) every goroutine that executes stack code is a Task, exactly one task runs at a
// time, and the scheduler goroutine decides at every scheduling point who runs next.
//
// All functions that touch scheduler state are //go:norace and all hand-offs run between
// raceDisable/raceEnable, so that in a -race build ThreadSanitizer sees only the
// synchronisation the stack itself performs (its own mutexes and go statements).
package simrt

import (
	"fmt"
	"runtime"
	"sync"
	"sync/atomic"
	"testing/synctest"
	"time"
)

type opKind int

const (
	opNone opKind = iota
	opStart
	opYield
	opLock
	opRLock
	opWLockWait // writer announced on an RWMutex, waiting for readers to drain
	opWait      // harness-level wait on a condition
	opExit
)

func (o opKind) String() string {
	return [...]string{"none", "start", "yield", "lock", "rlock", "wlockwait", "wait", "exit"}[o]
}

type taskState int

const (
	tsArmed   taskState = iota // timer task whose timer has not fired
	tsParked                   // blocked on its private channel, waiting for the scheduler
	tsRunning                  // holds the token (or is natively blocked, see Native)
	tsDone
	tsDead // timer task whose timer was stopped before firing
)

type wakeMsg struct{ abort bool }

// Task is one goroutine executing stack or harness code under the scheduler.
type Task struct {
	ID   int
	Name string
	Kind string // "reader", "app", "go", "timer", ...
	Loc  string // where it was spawned

	goid  atomic.Int64
	wake  chan wakeMsg
	state taskState

	op     opKind
	opLoc  string
	mu     *Mutex
	rw     *RWMutex
	cond   func() bool
	Native bool // released, did not park again: blocked in a native select/chan op

	Deadline time.Time // tsArmed: when the timer fires
	Steps    int
	Parent   int
	OpSeq    uint64 // harness bookkeeping: sequence number at which the task's current operation began

	PanicVal   any
	PanicStack string

	// Held: the modelled locks the task holds (see lockorder.go)
	Held []HeldLock
}

//go:norace
func (t *Task) String() string {
	return fmt.Sprintf("%s#%d", t.Name, t.ID)
}

// OpString describes what a parked task is waiting to do.
//
//go:norace
func (t *Task) OpString() string {
	return fmt.Sprintf("%s@%s", t.op, t.opLoc)
}

//go:norace
func (t *Task) Done() bool { return t.state == tsDone || t.state == tsDead }

//go:norace
func (t *Task) Dead() bool { return t.state == tsDead }

//go:norace
func (t *Task) Parked() bool { return t.state == tsParked }

//go:norace
func (t *Task) Armed() bool { return t.state == tsArmed }

//go:norace
func (t *Task) OpKind() string { return t.op.String() }

type tickerRec struct {
	owner  *Task
	start  time.Time
	period time.Duration
}

// Sched is the scheduler of one simulated run.
type Sched struct {
	epoch     uint64
	tabMu     sync.Mutex // protects tasks slice growth against lookups from natively woken goroutines
	tasks     []*Task
	tickers   []*tickerRec
	timers    []*Timer    // see timers.go
	deadlines []time.Time // see timers.go
	schedG    int64

	Current  *Task // task that was released last
	obsHeld  []*Mutex
	aborting bool
	Steps    int

	// OnPanic is called (in the panicking task, token held) when a task panics.
	Panics []*Task

	// LockEdges: lock-order edges observed in this run (see lockorder.go)
	LockEdges []LockEdge

	// OnSpawn is invoked when the stack spawns a goroutine or arms a timer.
	OnSpawn func(t *Task)
}

var active atomic.Pointer[Sched]
var epochCtr atomic.Uint64

// Active reports whether a scheduler is installed.
func Active() bool { return active.Load() != nil }

// New installs a new scheduler. Must be called inside a synctest bubble by the goroutine
// that will run Step.
//
//go:norace
func New() *Sched {
	s := &Sched{epoch: epochCtr.Add(1), schedG: goid()}
	active.Store(s)
	return s
}

// Uninstall removes the scheduler (primitives fall back to their native behaviour).
//
//go:norace
func (s *Sched) Uninstall() { active.CompareAndSwap(s, nil) }

//go:norace
func (s *Sched) Tasks() []*Task {
	raceDisable()
	s.tabMu.Lock()
	r := s.tasks
	s.tabMu.Unlock()
	raceEnable()
	return r
}

//go:norace
func (s *Sched) addTask(t *Task) {
	raceDisable()
	s.tabMu.Lock()
	t.ID = len(s.tasks)
	s.tasks = append(s.tasks, t)
	s.tabMu.Unlock()
	raceEnable()
}

// self returns the task of the calling goroutine, or nil for the scheduler goroutine and
// for goroutines that are not tasks.
//
//go:norace
func (s *Sched) self() *Task {
	g := goid()
	if g == s.schedG {
		return nil
	}
	if c := s.Current; c != nil && c.goid.Load() == g {
		return c
	}
	raceDisable()
	s.tabMu.Lock()
	var r *Task
	for i := len(s.tasks) - 1; i >= 0; i-- {
		if s.tasks[i].goid.Load() == g {
			r = s.tasks[i]
			break
		}
	}
	s.tabMu.Unlock()
	raceEnable()
	return r
}

// Self returns the calling task (nil outside tasks).
//
//go:norace
func Self() *Task {
	s := active.Load()
	if s == nil {
		return nil
	}
	return s.self()
}

//go:norace
func goid() int64 {
	var buf [64]byte
	n := runtime.Stack(buf[:], false)
	// "goroutine 123 ["
	var id int64
	for i := len("goroutine "); i < n; i++ {
		c := buf[i]
		if c < '0' || c > '9' {
			break
		}
		id = id*10 + int64(c-'0')
	}
	return id
}

// park blocks the calling task until the scheduler releases it.
//
//go:norace
func (t *Task) park(s *Sched, op opKind, loc string) {
	t.op, t.opLoc = op, loc
	t.Native = false
	t.state = tsParked
	raceDisable()
	m := <-t.wake
	raceEnable()
	if m.abort {
		t.state = tsDone
		runtime.Goexit()
	}
}

type abortSentinel struct{}

// newTask allocates a task record. Called by a token holder or by the scheduler goroutine,
// so ids are deterministic.
//
//go:norace
func (s *Sched) newTask(name, kind, loc string) *Task {
	t := &Task{Name: name, Kind: kind, Loc: loc, wake: make(chan wakeMsg, 1), state: tsParked, op: opStart, opLoc: loc, Parent: -1}
	if c := s.self(); c != nil {
		t.Parent = c.ID
	}
	s.addTask(t)
	return t
}

// body runs fn as task t: parks first, recovers panics, parks again before exiting so that
// termination is sequenced by the scheduler.
//
//go:norace
func (s *Sched) body(t *Task, fn func()) {
	t.goid.Store(goid())
	defer func() {
		// Goexit (abort) and normal return both land here; a panic is recorded.
		if r := recover(); r != nil {
			if _, ok := r.(abortSentinel); !ok {
				buf := make([]byte, 16<<10)
				n := runtime.Stack(buf, false)
				t.PanicVal = r
				t.PanicStack = string(buf[:n])
				s.notePanic(t)
			}
		}
		t.state = tsDone
	}()
	raceDisable()
	m := <-t.wake
	raceEnable()
	if m.abort {
		return
	}
	fn()
	t.park(s, opExit, t.Loc)
}

//go:norace
func (s *Sched) notePanic(t *Task) {
	raceDisable()
	s.tabMu.Lock()
	s.Panics = append(s.Panics, t)
	s.tabMu.Unlock()
	raceEnable()
}

// Spawn creates a harness task. It may be called from the scheduler goroutine or from a task.
//
//go:norace
func (s *Sched) Spawn(name, kind string, fn func()) *Task {
	t := s.newTask(name, kind, "harness")
	go s.body(t, fn)
	return t
}

// Go replaces a go statement of the stack.
//
//go:norace
func Go(loc string, fn func()) {
	s := active.Load()
	if s == nil || s.aborting {
		go fn()
		return
	}
	me := s.self()
	if me == nil && goid() != s.schedG {
		// a goroutine the simulator does not know: keep native behaviour
		go fn()
		return
	}
	t := s.newTask("go:"+loc, "go", loc)
	if s.OnSpawn != nil {
		s.OnSpawn(t)
	}
	go s.body(t, fn)
	if me != nil {
		me.park(s, opYield, "spawn:"+loc)
	}
}

// AfterFunc replaces time.AfterFunc. The callback becomes a task that parks before its
// first instruction.
//
//go:norace
func AfterFunc(loc string, d time.Duration, f func()) *time.Timer {
	s := active.Load()
	if s == nil || s.aborting {
		return time.AfterFunc(d, f)
	}
	t := s.newTask("timer:"+loc, "timer", loc)
	t.state = tsArmed
	t.Deadline = time.Now().Add(d)
	if s.OnSpawn != nil {
		s.OnSpawn(t)
	}
	return time.AfterFunc(d, func() {
		if active.Load() != s || s.aborting {
			return
		}
		t.goid.Store(goid())
		defer func() {
			if r := recover(); r != nil {
				buf := make([]byte, 16<<10)
				n := runtime.Stack(buf, false)
				t.PanicVal = r
				t.PanicStack = string(buf[:n])
				s.notePanic(t)
			}
			t.state = tsDone
		}()
		t.park(s, opStart, loc)
		f()
		t.park(s, opExit, loc)
	})
}

// NewTicker replaces time.NewTicker; the scheduler needs to know the tick instants (rule T2).
//
//go:norace
func NewTicker(loc string, d time.Duration) *time.Ticker {
	s := active.Load()
	if s != nil && !s.aborting {
		if me := s.self(); me != nil {
			raceDisable()
			s.tabMu.Lock()
			s.tickers = append(s.tickers, &tickerRec{owner: me, start: time.Now(), period: d})
			s.tabMu.Unlock()
			raceEnable()
		}
	}
	return time.NewTicker(d)
}

// Yield is a pure scheduling point.
//
//go:norace
func Yield(loc string) {
	s := active.Load()
	if s == nil {
		return
	}
	if s.aborting {
		s.exitIfTask()
		return
	}
	if me := s.self(); me != nil {
		me.park(s, opYield, loc)
	}
}

// WaitUntil parks the calling task until cond (pure harness state, evaluated by the scheduler) holds.
//
//go:norace
func WaitUntil(label string, cond func() bool) {
	s := active.Load()
	if s == nil {
		panic("simrt.WaitUntil without scheduler")
	}
	me := s.self()
	if me == nil {
		panic("simrt.WaitUntil outside a task")
	}
	me.cond = cond
	me.park(s, opWait, label)
	me.cond = nil
}

// ---------------------------------------------------------------------------------------
// scheduler side

// Quiesce waits until every task is parked, done or natively blocked and refreshes states.
//
//go:norace
func (s *Sched) Quiesce() {
	synctest.Wait()
	now := time.Now()
	for _, t := range s.Tasks() {
		switch t.state {
		case tsRunning:
			t.Native = true
		case tsArmed:
			if !now.Before(t.Deadline) {
				// the deadline has been reached (the system is quiescent: a timer that is due has
				// started its callback) and the callback did not start: it was stopped
				t.state = tsDead
			}
		}
	}
}

// Enabled reports whether a parked task can make its next step.
//
//go:norace
func (s *Sched) Enabled(t *Task) bool {
	if t.state != tsParked {
		return false
	}
	switch t.op {
	case opLock:
		if t.mu != nil {
			return t.mu.free(s)
		}
		return t.rw.canAnnounce(s)
	case opWLockWait:
		return t.rw.canWrite(s, t)
	case opRLock:
		return t.rw.canRead(s)
	case opWait:
		return t.cond == nil || t.cond()
	}
	return true
}

// Release hands the token to t and returns once the system is quiescent again.
//
//go:norace
func (s *Sched) Release(t *Task) {
	switch t.op {
	case opLock:
		if t.mu != nil {
			t.mu.grant(s, t)
			s.noteAcquire(t, t.mu, t.opLoc, true)
		} else {
			t.rw.announce(s, t)
		}
	case opWLockWait:
		t.rw.grantWrite(s, t)
		s.noteAcquire(t, t.rw, t.opLoc, true)
	case opRLock:
		t.rw.grantRead(s, t)
		s.noteAcquire(t, t.rw, t.opLoc, false)
	}
	t.state = tsRunning
	t.Steps++
	s.Steps++
	s.Current = t
	raceDisable()
	t.wake <- wakeMsg{}
	raceEnable()
	s.Quiesce()
}

// NextEvent returns the earliest instant at which something armed fires: a timer task or
// a tick of a ticker whose owner task is still alive.
//
//go:norace
func (s *Sched) NextEvent() (at time.Time, ok bool) {
	now := time.Now()
	for _, t := range s.Tasks() {
		if t.state == tsArmed {
			if !ok || t.Deadline.Before(at) {
				at, ok = t.Deadline, true
			}
		}
	}
	raceDisable()
	s.tabMu.Lock()
	tk := s.tickers
	s.tabMu.Unlock()
	raceEnable()
	for _, k := range tk {
		if k.owner.Done() {
			continue
		}
		n := now.Sub(k.start)/k.period + 1
		next := k.start.Add(n * k.period)
		if !ok || next.Before(at) {
			at, ok = next, true
		}
	}
	if x, have := s.extraEvents(now); have && (!ok || x.Before(at)) {
		at, ok = x, true
	}
	return
}

// BusyTickLimit returns the earliest next tick of a ticker whose owner is not in its select;
// the clock must stay strictly before it.
//
//go:norace
func (s *Sched) BusyTickLimit() (time.Time, bool) {
	now := time.Now()
	raceDisable()
	s.tabMu.Lock()
	tk := s.tickers
	s.tabMu.Unlock()
	raceEnable()
	var lim time.Time
	have := false
	for _, k := range tk {
		if k.owner.Done() || (k.owner.state == tsRunning && k.owner.Native) {
			continue
		}
		n := now.Sub(k.start)/k.period + 1
		next := k.start.Add(n * k.period)
		if !have || next.Before(lim) {
			lim, have = next, true
		}
	}
	return lim, have
}

// AdvanceTo moves the fake clock to instant at (plus one nanosecond, so that every timer due
// at that instant has fired before the scheduler continues) and waits for quiescence.
//
//go:norace
func (s *Sched) AdvanceTo(at time.Time) {
	d := at.Sub(time.Now()) + time.Nanosecond
	if d > 0 {
		time.Sleep(d)
	}
	s.Quiesce()
}

// AdvanceBy moves the fake clock by d without the extra nanosecond.
//
//go:norace
func (s *Sched) AdvanceBy(d time.Duration) {
	if d > 0 {
		time.Sleep(d)
	}
	s.Quiesce()
}

// exitIfTask terminates the calling goroutine if it is a task (used while a run is being torn
// down: a goroutine that wakes up natively, e.g. from a ticker, must not keep running).
//
//go:norace
func (s *Sched) exitIfTask() {
	if me := s.self(); me != nil {
		me.state = tsDone
		runtime.Goexit()
	}
}

// BeginAbort switches every primitive to pass-through mode (locks become no-ops) so that
// cleanup code can run on the scheduler goroutine whatever the parked tasks hold.
//
//go:norace
func (s *Sched) BeginAbort() { s.aborting = true }

// AbortAll terminates every unfinished task (used at the end of a run and after a violation
// that makes continuing meaningless). Natively blocked goroutines cannot be reached; the
// caller stops them through the stack's own API first.
//
//go:norace
func (s *Sched) AbortAll() {
	s.aborting = true
	for round := 0; round < 50; round++ {
		synctest.Wait()
		n := 0
		native := 0
		for _, t := range s.Tasks() {
			switch {
			case t.state == tsParked:
				t.state = tsRunning
				raceDisable()
				t.wake <- wakeMsg{abort: true}
				raceEnable()
				n++
			case t.state == tsRunning:
				native++
			}
		}
		if n == 0 && native > 0 && round < 40 {
			// natively blocked goroutines (a heartbeat loop nobody can stop any more): let their
			// tickers fire; on wake-up they reach a scheduling point and exit (exitIfTask)
			time.Sleep(3 * time.Minute)
			continue
		}
		if n == 0 {
			break
		}
	}
	synctest.Wait()
}

// Epoch identifies the run; modelled mutexes reset themselves when they see a new epoch.
func (s *Sched) Epoch() uint64 { return s.epoch }

// WaitCycle returns a description of what every unfinished task is blocked on.
//
//go:norace
func (s *Sched) BlockedReport() []string {
	var out []string
	for _, t := range s.Tasks() {
		if t.Done() || t.state == tsArmed {
			continue
		}
		switch {
		case t.state == tsRunning && t.Native:
			out = append(out, fmt.Sprintf("%s native-blocked", t))
		case t.state == tsParked:
			holder := ""
			if t.mu != nil && (t.op == opLock) && t.mu.owner != nil {
				holder = " held-by " + t.mu.owner.String()
			}
			if t.rw != nil && (t.op == opLock || t.op == opRLock || t.op == opWLockWait) {
				holder = " rw:" + t.rw.describe()
			}
			out = append(out, fmt.Sprintf("%s parked %s%s", t, t.OpString(), holder))
		}
	}
	return out
}
