package simrt

import (
	"runtime"
	"strconv"
	"strings"
)

// caller returns "Func:line" of the frame skip levels above the caller of caller. The
// function name is stable under instrumentation; the line refers to the instrumented copy.
//
//go:norace
func caller(skip int) string {
	pc, _, line, ok := runtime.Caller(skip)
	if !ok {
		return "?"
	}
	name := "?"
	if f := runtime.FuncForPC(pc); f != nil {
		name = f.Name()
		if i := strings.LastIndexByte(name, '/'); i >= 0 {
			name = name[i+1:]
		}
	}
	return name + ":" + strconv.Itoa(line)
}
