package simrt

import (
	"cmp"
	"runtime"
	"slices"
	"strconv"
	"strings"
)

// caller returns "Func:line" of the frame skip levels above the caller of caller. The
// function name is stable under instrumentation; the line refers to the instrumented copy.
//
//go:norace
func caller(skip int) string {
	pc, _, line, ok := runtime.Caller(skip)
	if !ok {
		return "?"
	}
	name := "?"
	if f := runtime.FuncForPC(pc); f != nil {
		name = f.Name()
		if i := strings.LastIndexByte(name, '/'); i >= 0 {
			name = name[i+1:]
		}
	}
	return name + ":" + strconv.Itoa(line)
}

// SortedKeys returns the keys of m in ascending order (used by the instrumenter to replace
// iteration over maps whose loop body contains scheduling points).
func SortedKeys[K cmp.Ordered, V any](m map[K]V) []K {
	keys := make([]K, 0, len(m))
	for k := range m {
		keys = append(keys, k)
	}
	slices.Sort(keys)
	return keys
}
