//go:build !race

package simrt

const RaceBuild = false

func raceDisable() {}
func raceEnable()  {}

// RaceErrors returns the number of race reports so far (0 without -race).
func RaceErrors() int { return 0 }
