package simrt

import (
	"fmt"
	"sync"
)

// Mutex replaces sync.Mutex in the instrumented tree. Without a scheduler it is a plain
// mutex. With one, Lock is a scheduling point and a task whose lock is held is simply not
// enabled, so no task ever blocks inside a real mutex (which synctest would not consider
// durably blocked). The embedded real mutex is still locked (it is free by construction) so
// that the race detector sees the stack's own lock edges and nothing else.
type Mutex struct {
	mu    sync.Mutex
	epoch uint64
	owner *Task
	held  bool
	// Quiet marks locks that are not scheduling points (library-internal, never held across one)
}

var nonTask = &Task{ID: -1, Name: "non-task"}

// ObserverBlocked is the panic value raised when a non-task goroutine (the scheduler
// evaluating an invariant) needs a lock that a parked task holds.
type ObserverBlocked struct{ Lock string }

//go:norace
func (m *Mutex) sync(s *Sched) {
	if m.epoch != s.epoch {
		m.epoch = s.epoch
		m.owner = nil
		if m.held {
			m.mu = sync.Mutex{}
			m.held = false
		}
	}
}

//go:norace
func (m *Mutex) free(s *Sched) bool {
	m.sync(s)
	return m.owner == nil
}

//go:norace
func (m *Mutex) grant(s *Sched, t *Task) {
	m.sync(s)
	m.owner = t
}

//go:norace
func (m *Mutex) Lock() {
	s := active.Load()
	if s == nil {
		m.mu.Lock()
		m.held = true
		return
	}
	if s.aborting {
		if goid() != s.schedG {
			s.exitIfTask()
		}
		return
	}
	me := s.self()
	if me == nil {
		m.sync(s)
		if m.owner != nil {
			panic(ObserverBlocked{Lock: fmt.Sprintf("%p held by %s", m, m.owner)})
		}
		m.owner = nonTask
		realLock(&m.mu)
		m.held = true
		s.obsHeld = append(s.obsHeld, m)
		return
	}
	me.mu = m
	me.park(s, opLock, caller(2))
	me.mu = nil
	// the scheduler granted the lock (owner == me)
	realLock(&m.mu)
	m.held = true
}

//go:norace
func (m *Mutex) Unlock() {
	s := active.Load()
	if s == nil {
		m.held = false
		m.mu.Unlock()
		return
	}
	if s.aborting {
		return
	}
	m.sync(s)
	if m.owner == nonTask {
		for i, x := range s.obsHeld {
			if x == m {
				s.obsHeld = append(s.obsHeld[:i:i], s.obsHeld[i+1:]...)
				break
			}
		}
	}
	s.noteRelease(m.owner, m)
	m.owner = nil
	if m.held {
		m.held = false
		realUnlock(&m.mu)
	}
}

// ReleaseObserverLocks frees locks that an observer (non-task) call still holds after it was
// unwound by an ObserverBlocked panic.
//
//go:norace
func (s *Sched) ReleaseObserverLocks() {
	for _, m := range s.obsHeld {
		if m.owner == nonTask {
			m.owner = nil
			if m.held {
				m.held = false
				realUnlock(&m.mu)
			}
		}
	}
	s.obsHeld = nil
}

//go:norace
func (m *Mutex) TryLock() bool {
	s := active.Load()
	if s == nil {
		ok := m.mu.TryLock()
		if ok {
			m.held = true
		}
		return ok
	}
	if s.aborting {
		return true
	}
	m.sync(s)
	if m.owner != nil {
		return false
	}
	me := s.self()
	if me == nil {
		me = nonTask
	}
	m.owner = me
	if me != nonTask {
		me.Held = append(me.Held, HeldLock{Key: m, Site: caller(2), Write: true})
	}
	realLock(&m.mu)
	m.held = true
	return true
}

// RWMutex replaces sync.RWMutex, with Go's writer preference: a writer that has called Lock
// blocks new readers.
type RWMutex struct {
	mu      sync.RWMutex
	epoch   uint64
	writer  *Task
	readers []*Task
	pending []*Task // announced writers
	wheld   bool
	rheld   int
}

//go:norace
func (m *RWMutex) sync(s *Sched) {
	if m.epoch != s.epoch {
		m.epoch = s.epoch
		m.writer, m.readers, m.pending = nil, nil, nil
		if m.wheld || m.rheld > 0 {
			m.mu = sync.RWMutex{}
			m.wheld, m.rheld = false, 0
		}
	}
}

//go:norace
func (m *RWMutex) describe() string {
	return fmt.Sprintf("writer=%v readers=%d pending=%d", m.writer, len(m.readers), len(m.pending))
}

//go:norace
func (m *RWMutex) canAnnounce(s *Sched) bool { m.sync(s); return true }

//go:norace
func (m *RWMutex) canRead(s *Sched) bool {
	m.sync(s)
	return m.writer == nil && len(m.pending) == 0
}

//go:norace
func (m *RWMutex) canWrite(s *Sched, t *Task) bool {
	m.sync(s)
	return m.writer == nil && len(m.readers) == 0 && len(m.pending) > 0 && m.pending[0] == t
}

//go:norace
func (m *RWMutex) announce(s *Sched, t *Task) {
	m.sync(s)
	m.pending = append(m.pending, t)
}

//go:norace
func (m *RWMutex) grantWrite(s *Sched, t *Task) {
	m.pending = m.pending[1:]
	m.writer = t
}

//go:norace
func (m *RWMutex) grantRead(s *Sched, t *Task) {
	m.readers = append(m.readers, t)
}

//go:norace
func (m *RWMutex) Lock() {
	s := active.Load()
	if s == nil {
		m.mu.Lock()
		m.wheld = true
		return
	}
	if s.aborting {
		return
	}
	me := s.self()
	if me == nil {
		m.sync(s)
		if m.writer != nil || len(m.readers) > 0 {
			panic(ObserverBlocked{Lock: fmt.Sprintf("%p rw %s", m, m.describe())})
		}
		m.writer = nonTask
		raceDisable()
		raceEnable()
		m.mu.Lock()
		m.wheld = true
		return
	}
	loc := caller(2)
	me.rw = m
	me.park(s, opLock, loc) // released => announced
	me.park(s, opWLockWait, loc)
	me.rw = nil
	m.mu.Lock()
	m.wheld = true
}

//go:norace
func (m *RWMutex) Unlock() {
	s := active.Load()
	if s == nil {
		m.wheld = false
		m.mu.Unlock()
		return
	}
	if s.aborting {
		return
	}
	m.sync(s)
	s.noteRelease(m.writer, m)
	m.writer = nil
	if m.wheld {
		m.wheld = false
		m.mu.Unlock()
	}
}

//go:norace
func (m *RWMutex) RLock() {
	s := active.Load()
	if s == nil {
		m.mu.RLock()
		return
	}
	if s.aborting {
		return
	}
	me := s.self()
	if me == nil {
		m.sync(s)
		if m.writer != nil {
			panic(ObserverBlocked{Lock: fmt.Sprintf("%p rw %s", m, m.describe())})
		}
		m.readers = append(m.readers, nonTask)
		m.mu.RLock()
		m.rheld++
		return
	}
	me.rw = m
	me.park(s, opRLock, caller(2))
	me.rw = nil
	m.mu.RLock()
	m.rheld++
}

//go:norace
func (m *RWMutex) RUnlock() {
	s := active.Load()
	if s == nil {
		m.mu.RUnlock()
		return
	}
	if s.aborting {
		return
	}
	m.sync(s)
	me := s.self()
	if me == nil {
		me = nonTask
	}
	for i, r := range m.readers {
		if r == me {
			m.readers = append(m.readers[:i:i], m.readers[i+1:]...)
			break
		}
	}
	s.noteRelease(me, m)
	if m.rheld > 0 {
		m.rheld--
		m.mu.RUnlock()
	}
}

// QuietMutex is a mutex for library-internal locks that are never held across a scheduling
// point (ship-go's logging accessor). It is not a scheduling point and, in race builds, its
// acquire/release edges are hidden so that they do not order otherwise unrelated tasks.
type QuietMutex struct{ mu sync.Mutex }

//go:norace
func (m *QuietMutex) Lock() {
	if active.Load() == nil {
		m.mu.Lock()
		return
	}
	raceDisable()
	m.mu.Lock()
	raceEnable()
}

//go:norace
func (m *QuietMutex) Unlock() {
	if active.Load() == nil {
		m.mu.Unlock()
		return
	}
	raceDisable()
	m.mu.Unlock()
	raceEnable()
}

func realLock(m *sync.Mutex)   { m.Lock() }
func realUnlock(m *sync.Mutex) { m.Unlock() }
