//go:build race

package simrt

import "runtime"

const RaceBuild = true

func raceDisable() { runtime.RaceDisable() }
func raceEnable()  { runtime.RaceEnable() }

// RaceErrors returns the number of race reports so far.
func RaceErrors() int { return runtime.RaceErrors() }
