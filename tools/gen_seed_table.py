#!/usr/bin/env python3
"""prints the markdown table of DESIGN.md section 11 from seeded/*/meta.json"""
import json, glob, os
rows = []
for d in sorted(glob.glob('/verif/seeded/*/')):
    m = json.load(open(d + 'meta.json'))
    name = os.path.basename(d.rstrip('/'))
    patch = open(d + 'patch.diff').read()
    files = sorted({l.split(' b/')[-1].strip() for l in patch.splitlines() if l.startswith('diff --git')})
    rows.append((name, m['property'], ', '.join(files), m['needs_to_manifest'], m['caught_by'], m.get('strengthened', '')))
print('| seed | property | file | needs to manifest | caught by | strengthened because of it |')
print('|---|---|---|---|---|---|')
for r in rows:
    print('| ' + ' | '.join(x.replace('|', '\\|').replace('\n', ' ') for x in r) + ' |')
