#!/bin/bash
# seedrun.sh <patch> <check-id>... : apply a seeded change to /repo, run the quick tier of the
# given checks (into a scratch evidence dir so committed evidence is not overwritten), undo.
export GOFLAGS=-mod=mod GOPROXY=off GOSUMDB=off GOTOOLCHAIN=local
patch=$(readlink -f "$1"); shift
cd "$(dirname "$(readlink -f "$0")")/.." || exit 2   # (/verif, or a vp-run snapshot of it)
exec 9>>/tmp/repo.lock; flock 9; export VERIF_REPO_LOCK_HELD=1   # (see tools/thorough_sweep.sh)
[ -n "$(git -C /repo status --porcelain)" ] && { echo "/repo not clean"; exit 2; }
git -C /repo apply "$patch" || { echo "patch does not apply"; exit 2; }
trap 'git -C /repo checkout -q -- . ; git -C /repo clean -fdq' EXIT
mode=${SEED_MODE:-quick}
for id in "$@"; do
  echo "== ./check $id $mode"
  VERIF_EVIDENCE_DIR=/tmp/seed-evidence ./check $id $mode 2>&1 | grep -E 'VIOLATION|KNOWN-FINDING|^ok|held|runs=|exit|error|signature' | head -${SEED_LINES:-12}
  echo "exit=${PIPESTATUS[0]}"
done
