#!/bin/bash
# seedregress.sh [names...] : run, for every stored seeded change, the quick tier of the check(s)
# named first in its meta.json "caught_by" and report whether it still exits 1.
cd "$(dirname "$(readlink -f "$0")")/.." || exit 2   # (/verif, or a vp-run snapshot of it)
out=$PWD/work/seedregress.txt; mkdir -p $PWD/work; : > $out
names="$@"; [ -z "$names" ] && names=$(ls seeded)
for n in $names; do
  ids=$(python3 -c "
import json,re,sys
m=json.load(open('seeded/$n/meta.json'))
ids=re.findall(r'C\d\d', m['caught_by'].split('(')[0]) or [m['property']]
print(' '.join(dict.fromkeys(ids[:1])))")
  if ! git -C /repo apply --check $PWD/seeded/$n/patch.diff 2>/dev/null; then echo "$n SKIP (patch does not apply to HEAD)" >> $out; continue; fi
  for id in $ids; do
    r=$(SEED_LINES=40 tools/seedrun.sh seeded/$n/patch.diff $id 2>&1 | grep -E "^exit=" | tail -1)
    echo "$n $id $r" >> $out
  done
done
echo done >> $out
