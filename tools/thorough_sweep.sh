#!/bin/bash
# thorough_sweep.sh <seed> <budget_s> <ids...> : thorough tier of the given checks, one after the
# other, on the unchanged tree; logs and evidence under /verif/work/thorough/ (not committed).
# The build phase of each check holds /tmp/repo.lock so that tools/seedrun.sh (which patches
# /repo temporarily) cannot interfere.
seed=$1; budget=$2; shift 2
cd "$(dirname "$(readlink -f "$0")")/.." || exit 2   # (/verif, or a vp-run snapshot of it)
out=$PWD/work/thorough; mkdir -p $out/evidence
for id in "$@"; do
  VERIF_SEED=$seed VERIF_BUDGET_S=$budget VERIF_EVIDENCE_DIR=$out/evidence ./check $id thorough > $out/$id.seed$seed.log 2>&1
  echo "$id seed=$seed exit=$? $(grep -E "^$id thorough" $out/$id.seed$seed.log | cut -c1-200)" >> $out/SUMMARY.txt
done
echo "sweep seed=$seed done" >> $out/SUMMARY.txt
