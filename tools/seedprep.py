#!/usr/bin/env python3
"""seedprep.py <property-id>... : prepare one scratch worktree of /repo per property for a
sub-agent that writes a seeded change: /tmp/wt-<id>/out/PROPERTY.txt (the text of the property,
nothing from /verif's machinery) and /tmp/wt-<id>/out/ALREADY_USED.txt (one line per earlier
seeded change of that property - what it needed in order to manifest - so that a new change is a
different one). Prints the prompt for each agent to /tmp/wt-<id>/out/PROMPT.txt."""
import json, os, subprocess, sys, glob

props = {}
for l in open('/verif/properties.jsonl'):
    p = json.loads(l)
    props[p['id']] = p

PROMPT = """You are helping to evaluate a verification effort for the Go library enbility/spine-go (EEBUS SPINE protocol stack). Your job: write ONE realistic, subtle code change (a "seeded defect") to the library that BREAKS the semantic property given below, while the library still compiles and its whole existing test suite still passes, plus a demonstration test that fails with your change and passes without it.

Your scratch git worktree of the repository: {wt}  (work ONLY there; never touch /repo or /verif; do not read anything under /verif).
The property text: {wt}/out/PROPERTY.txt  (read it first; its "anchors" name the files and mechanisms involved).
Changes written earlier for this property (yours must be a DIFFERENT one - other site, other mechanism, other trigger): {wt}/out/ALREADY_USED.txt

Every shell call needs: export GOFLAGS=-mod=mod GOPROXY=off GOSUMDB=off GOTOOLCHAIN=local   (no network; default `go` is the right toolchain for the repository).
Suite: cd {wt} && go build ./... && go test -vet=off -count=1 ./...   (about 10 s; all packages must pass WITH your change).

What kind of change: the sort of slip a maintainer could make in a refactoring or an optimisation and a reviewer could overlook - not sabotage, no special-casing of magic values, no dead code, no new exported API, no changes to tests. It must need something SPECIFIC to manifest - one of: a particular interleaving of goroutines; a fault (connection removed, message duplicated/reordered/lost, timer firing) at a particular point; a multi-step sequence of operations; an unusual but legal input; or two cooperating sites that each look fine alone. Ordinary use must NOT expose it at once (the existing tests pass). Prefer {hint}. Keep it small (typically 1-15 changed lines in non-test .go files under spine/, model/, api/ or util/).

Deliverables, all in {wt}/out/ :
  1. patch.diff - `git diff` of your change to the library only (no test files), applicable with `git apply` on a clean checkout of the worktree's HEAD.
  2. zz_seeded_demo_test.go - a Go test file whose test function names all start with TestSeeded, first line a comment `// dir: <package directory relative to the repository root, e.g. spine>`, to be copied into that directory. It must FAIL with the change and PASS without it (run it several times both ways; if it depends on a goroutine interleaving, make it deterministic with loops/retries or by calling the functions in the order that exposes the state, or run with -race if the breakage is a data race and say so). It may use internal (package-level) access and the mocks under mocks/.
  3. NOTES.md - which clause of the property breaks, the exact trigger (what must happen, in which order), why the existing tests do not notice, and the commands you ran with their results.
Never use `git stash` (the stash is shared by all worktrees of this repository and other agents work in parallel): toggle your change with `git diff > out/patch.diff`, `git apply -R out/patch.diff`, `git apply out/patch.diff`. While you run the whole suite keep the demo file outside the module tree (e.g. in /tmp/<your-id>-demo/), `./...` would otherwise try to build out/ as a package; copy it to out/ at the end.
When finished: leave the worktree with the change REVERTED (git checkout -- . ; only out/ holds your results; delete any other scratch files you created). Verify the three facts yourself before finishing: (1) suite passes with the change and without the demo file, (2) demo fails with the change, (3) demo passes without the change.
Final answer: 5-10 lines - the changed site, the trigger, and the three verification results.
"""

HINTS = [
    "a change whose trigger is a particular interleaving or a fault at a particular point",
    "a change whose trigger is an unusual but legal input or a multi-step sequence",
    "two cooperating sites that each look fine alone, or a multi-step sequence",
]

for n, pid in enumerate(sys.argv[1:]):
    wt = f"/tmp/wt-{pid}"
    if not os.path.isdir(wt):
        subprocess.check_call(['git', '-C', '/repo', 'worktree', 'add', '--detach', '-q', wt, 'HEAD'])
    os.makedirs(wt + '/out', exist_ok=True)
    p = props[pid]
    with open(wt + '/out/PROPERTY.txt', 'w') as f:
        f.write(f"{p['id']} - {p['title']}\n\nStatement:\n{p['statement']}\n\nQuantifier ({', '.join(p['quantifier']['over'])}): {p['quantifier']['text']}\n\nWhy the existing tests cannot settle it:\n{p['why_tests_cant']}\n\nAnchors:\n{json.dumps(p['anchors'], indent=1)}\n")
    used = []
    for m in sorted(glob.glob(f'/verif/seeded/{pid}-*/meta.json')):
        meta = json.load(open(m))
        files = ''
        try:
            files = ', '.join(sorted({l[6:].strip() for l in open(os.path.dirname(m) + '/patch.diff') if l.startswith('+++ b/')}))
        except Exception:
            pass
        used.append(f"- [{files}] {meta['needs_to_manifest']}")
    # changes written for other properties that touch the same anchors are also "used"
    with open(wt + '/out/ALREADY_USED.txt', 'w') as f:
        f.write('\n'.join(used) + '\n')
    hint = HINTS[(n + len(used)) % len(HINTS)]
    with open(wt + '/out/PROMPT.txt', 'w') as f:
        f.write(PROMPT.format(wt=wt, hint=hint))
    print(wt)
