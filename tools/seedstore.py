#!/usr/bin/env python3
"""seedstore.py <name> <worktree> <property> <caught_by> <needs> [<strengthened>]
copies the deliverables of a confirmed seeded change to /verif/seeded/<name>/ and writes meta.json"""
import sys, os, shutil, json, glob
name, wt, prop, caught, needs = sys.argv[1:6]
strengthened = sys.argv[6] if len(sys.argv) > 6 else ""
dst = f"/verif/seeded/{name}"
os.makedirs(dst, exist_ok=True)
out = wt + "/out"
shutil.copy(out + "/patch.diff", dst + "/patch.diff")
for f in glob.glob(out + "/*_test.go"):
    shutil.copy(f, dst + "/demo_test.go.txt")  # (.txt: must not be compiled as part of /verif)
if os.path.exists(out + "/NOTES.md"):
    shutil.copy(out + "/NOTES.md", dst + "/NOTES.md")
meta = {
    "property": prop,
    "origin": "written by a sub-agent that saw only the property text and a scratch worktree of /repo",
    "needs_to_manifest": needs,
    "confirmed": "tools/seedverify.sh <worktree>: pinned suite passes with the change; the demonstration fails with it and passes without it",
    "checked_with": f"tools/seedrun.sh seeded/{name}/patch.diff {caught.split(' ')[0].split(',')[0]}  (git -C /repo apply; ./check <id> quick; git -C /repo checkout -- .)",
    "caught_by": caught,
    "strengthened": strengthened,
    "demo": "demo_test.go.txt (copy into the package directory named in its header / NOTES.md as zz_seeded_demo_test.go)",
}
json.dump(meta, open(dst + "/meta.json", "w"), indent=1)
print("stored", dst)
