#!/usr/bin/env python3
"""Generates /verif/MANIFEST.json from the table below (kept in one place so that it stays valid)."""
import json, sys

CLAIMED = {
 # id: (technique, level text, level note, design ref)
 "C01": ("deterministic simulation: 2-3 scripted peers with identical numbering send generated datagrams over classifier x registered function x ack x destination x role concurrently (reader tasks interleaved, net.dup); the classifier table (DESIGN A.3) prescribes the multiset of replies/results, matched against the outbound traces of all connections",
         "Seeded exploration of datagram sequences over {read, reply, notify, write, call, result} x every function the factory registers for randomly chosen feature types (harvested by reflection) x ackRequest absent/false/true x destination existing/unknown entity/unknown feature x role client/server/special, from several peers after a prefix of binds and data; per handled request the responses written during its handling (on any connection) must be exactly the prescribed ones, reference its counter, be addressed to its source and name the addressed local feature as source; read replies must carry the current data.",
         "Sampling; trusted: instrumenter, synctest, the classifier table A.3 (calibrated row by row against the unchanged tree). Cases the statement leaves open (calls that answer with a reply, node-management side effects of discovery) are decided in C06/C08.", "5/C01"),
 "C11": ("deterministic simulation, plain and -race builds: snapshots are retained through FeatureLocal.DataCopy, FeatureRemote.DataCopy, NodeManagement use-case DataCopy, UpdateData(persist=false) results and data-change event payloads, then updates of every shape arrive through the local API, remote writes, notify/reply datagrams, the remote-feature API (persisting or not) and use-case operations while a reader task keeps encoding the retained objects; re-encoding oracle + race detector under owned schedules",
         "Seeded exploration of histories of 4-16 updates (all filter shapes of the C02 generator, local, remote write, reply, notify, persisting and non-persisting, use-case operations) after and between snapshots taken through every seam the application has, for the flag-carrying list functions and randomly chosen other list functions. After every update and at the end each retained object must re-encode to the JSON recorded when it was handed out; a non-persisting update must leave DataCopy unchanged; in the race build any report whose one side is application code reading a retained object and whose other side is spine-go code is a violation.",
         "Sampling; trusted: instrumenter, synctest, race runtime with hidden scheduler hand-offs (DESIGN 2.6). ThreadSanitizer's bounded history can miss a race in one run, never invents one.", "5/C11"),
 "C12": ("deterministic simulation on the fake clock: writes pending approval with 1-3 callbacks whose verdict tasks are released in any order and sleep to just before / at / after the timeout while the scheduler also advances the clock mid-operation; per-write oracle over result datagrams, data-change events and callback invocation log (DESIGN A.6)",
         "Seeded exploration of 1-4 writes pending together on approval-guarded server features (1-3 callbacks, timeouts 100 ms-10 s, one or two peers), per-callback verdicts approve/deny/silent answered at once, after some scheduling, or 1 ms before / exactly at / 1 ms after the timeout, with the approval timer callback as a schedulable task; every handled write must be presented once to every callback and end with exactly one outcome: applied + success result iff all callbacks approved and the last approval returned before the timer fired, error result if not unanimous or the timer finished before the deciding verdict was invoked, either (never both, never none) when they overlap; data-change event iff success.",
         "Sampling; trusted: instrumenter, synctest fake clock (rules T1-T3), the A.6 classification. In the thorough tier feature_local.go gets statement-level preemption.", "5/C12"),
 "C13": ("deterministic simulation: 2-6 app tasks call Request/Notify/Write/Reply/Result/Subscribe/Bind/DatagramForMsgCounter/ProcessResponse on one connection under seeded schedules with statement-level preemption in send.go; history oracle over the outbound trace and return values; long sequential histories with >64 unanswered requests and >100 notifications",
         "Seeded exploration of interleavings of concurrent sender calls on one connection (statement granularity inside send.go) and of long sequential histories of requests over 3 destinations x 3 commands interleaved with responses referencing earlier, unknown and already answered counters, more than 64 unanswered distinct requests, and more than 100 notifications interleaved with lookups of old ones. Oracle: all counters on the connection distinct; counters increase between non-overlapping calls; a withheld request returns the counter of an identical request that is unanswered, a different request is never withheld, a processed response re-enables sending, an identical unanswered request is not sent again (when the bound cannot have forgotten it); remembered unanswered requests <= 64; each of the last 100 notifications is retrievable with exactly the datagram sent.",
         "Sampling; trusted: instrumenter (statement-level yields), synctest, the history oracle in harness/sc_c13.go.", "5/C13"),
 "C14": ("deterministic simulation: app tasks send requests and register response/result callbacks while scripted peers answer with matching, non-matching, repeated (net.dup), reference-less, mis-addressed and rejected replies/results; registration tasks interleave with the reader task delivering the answer; invocation-log oracle",
         "Seeded exploration of histories of callback registrations (1-3 distinct callbacks per counter, the same function twice, several counters, two local features, result callbacks) interleaved with replies and results from 1-2 peers whose references match, do not match, are repeated by the network, are missing, address another local feature or whose reply is rejected; registrations run concurrently with the arrivals. Oracle over the invocation log: a response callback fires exactly once iff a matching accepted message began being handled after its registration returned (<=1 when they overlap, 0 when all matching messages were handled before), never for another reference or feature, with the data and originating remote feature of a matching message; the same function registered twice is refused; result callbacks fire once per referencing result.",
         "Sampling; trusted: instrumenter, synctest, the oracle in harness/sc_c14.go. Callback identity is by function value as the API defines it (closures of one literal are the same callback and are not generated as 'distinct').", "5/C14"),
 "C15": ("deterministic simulation of the real process-global event bus: 2-4 tasks subscribe, unsubscribe and publish while handlers (un)subscribe, publish and call the stack from inside HandleEvent; a real DeviceLocal plus a harness handler sit at the core level; delivery-log oracle + modelled-lock deadlock detection",
         "Seeded exploration of histories of Subscribe/Unsubscribe/Publish from 2-4 tasks with 2-4 application handlers that, while handling an event, subscribe others, unsubscribe themselves, publish nested events or call stack API; publications include device-added events the real DeviceLocal (core level) reacts to with datagrams. Oracle: each published event is delivered at most once per handler, exactly once to handlers subscribed when Publish was invoked (no unsubscription invoked before it returned), never to handlers whose unsubscription had returned; the core level handler has handled the event exactly once, inside Publish, before any application handler; wait-for cycles on the bus's locks are deadlock violations.",
         "Sampling; trusted: instrumenter, synctest, overlay accessor VerifSubscribeCore (calls the unexported subscribe at core level), oracle in harness/sc_c15.go.", "5/C15"),
 "C16": ("deterministic simulation on the fake clock with statement-level preemption in heartbeat_manager.go: 1-3 tasks interleave AddFunctionType(heartbeat)/StartHeartbeat/StopHeartbeat/IsHeartbeatRunning/RemoveEntity with pauses of fractions and multiples of the timeout; a subscribed scripted peer records every refresh; history oracle + live heartbeat goroutine count from the task table",
         "Seeded exploration of histories and interleavings (statement granularity inside heartbeat_manager.go) of heartbeat operations from 1-3 tasks for timeouts 100 ms-60 s (including 2 s, 2.1 s and 4 s where the period is shortened), on the fake clock (ticks are never skipped while the heartbeat goroutine is busy, rule T2). Oracle: counters strictly increase, timestamps are current, while the history says certainly running consecutive refreshes are at most the announced timeout apart and each is notified to the subscriber, never more than one heartbeat goroutine alive once all operations returned (0 after a final stop/removal, 1 after a final start), at most one refresh after the final stop returned however far the clock advances, IsHeartbeatRunning agrees with the history where determinate, and no task panics (double close, start before the function exists).",
         "Sampling; trusted: instrumenter (statement-level yields), synctest fake clock, oracle in harness/sc_c16.go. Ticks are not dropped (rule T2), so a heartbeat goroutine that is starved for longer than a period is not explored.", "5/C16"),
 "C17": ("deterministic simulation in the -race build: a combined workload (inbound messages on two connections incl. writes pending approval, local data updates, use-case changes, entity add/remove, client-side subscribe/bind/request, approval verdicts, heartbeat start/stop on the fake clock, connection removal, an observer walking the whole API) under seeded schedules whose scheduler hand-offs are hidden from ThreadSanitizer, so only the stack's own synchronisation orders accesses; plus modelled-lock deadlock detection and 'every task finishes' in both builds",
         "Seeded exploration of schedules of the combined workload. A violation is a race report whose both sides are stack code (signature = unordered pair of innermost spine-go functions), or application code reading what the stack writes, or a wait-for cycle on the stack's own locks, or a task that has not finished after the drain. Known races are listed individually in known_findings.json; any other pair is a VIOLATION.",
         "Sampling; trusted: instrumenter, synctest, race runtime with hidden hand-offs (self-test: ./check selftest runs the SELF race probes). ThreadSanitizer keeps a bounded access history per word: a race can be missed in one run, never invented. Reports in which the harness hands bytes/data to the stack from another task are discarded as harness-internal and counted.", "5/C17"),
 "C20": ("deterministic simulation: use-case operations as sequential histories (with a scripted peer reading nodeManagementUseCaseData after random operations) and as concurrent read-modify-write cycles from one task per entity under seeded schedules; reference map oracle over HasUseCaseSupport, DataCopy and the peer's replies",
         "Seeded exploration of histories of Add/Remove/SetAvailability/RemoveAll/Has over 2-3 entities x 2 actors x 3 names (re-adds, unknown removals, last use case of an actor), sequentially with peer reads at arbitrary points, and concurrently from one task per entity (statement-level preemption in entity_local.go in the thorough tier). Oracle: HasUseCaseSupport after every operation, every peer reply and the final registry equal the reference map of what the application declared (version, sub revision, availability, scenarios last given); operations on one entity never affect another entity's use cases - a lost update is a violation.",
         "Sampling; trusted: instrumenter, synctest, the reference map in harness/sc_c20.go.", "5/C20"),
 "C02": ("deterministic simulation: histories of full/partial/selector/delete updates (all filter shapes) for every registered list function with generable identifiers, applied through the local API, through reply/notify datagrams from a scripted peer over a duplicating network, and through the remote-feature API; an independent executable fold of the cmdOption rules (DESIGN A.1) is the reference",
         "Seeded exploration of histories of 3-12 updates per run over identifier domain {0..3}x{0,1}, for a randomly chosen list function (all registered list types with scalar identifiers; per-function probes show which were hit) and every filter shape (none, partial with identifiers, partial without identifiers, partial+selector, delete+selector, delete+elements, delete+selector+elements, delete combined with partial), with selectors naming existing and non-existing items, empty lists and sparsely populated items. After every applied update DataCopy must equal the reference fold (as a multiset), hold at most one item per identifier and be ordered by numeric identifier; a duplicated delivery (net.dup) or a second application must change nothing.",
         "Sampling; trusted: instrumenter, synctest, the reference fold in harness/abslist.go (written from the statement, field-name based, shares no code with model.UpdateList). List types with struct-typed or no identifiers are not generated.", "5/C02"),
 "C03": ("deterministic simulation: scripted peers interleave bind/unbind/subscribe/write with conn.drop, conn.restart, peer.entity_remove and net.dup faults; reference binding registry decides per write whether it is authorised; data snapshots, outbound traces and events are the observables",
         "Seeded exploration of interleaved histories of bind, unbind, subscribe, write (from the bound feature, from another feature of the same peer, to read-only functions), disconnect/reconnect and entity removal by 2-3 peers with overlapping numbering against 2-6 local server features; for each delivered write the oracle requires, when unauthorised, unchanged data, no notification, no data-change event and exactly one error result, and when authorised, the data applied, one notify per current subscriber, one event and a success result iff ack.",
         "Sampling; trusted: instrumenter, synctest, registry model (A.5). Writes whose handling overlaps a registry change on their key, or other updates of the same function, are only checked for <=1 result.", "5/C03"),
 "C10": ("deterministic simulation with conn.drop / conn.restart / peer.entity_remove faults placed by an independent fault task while other peers' messages are being handled; ownership-partition oracle over registries (porcupine, with removal operations), client-side references, pending approvals, events and stale writes",
         "Seeded exploration of histories in which 2-3 peers with overlapping numbering subscribe, bind, have writes pending approval (silent application) and are referenced by local client features, while connections are removed (by the peer's own script and by an independent fault task, also mid-handling of other peers' messages), re-established, and entities are announced as removed. After the drain: registry histories including removals are linearizable and every peer's final listing matches, nothing of a removed peer is left, removal events match, removed devices are not resolvable, no pending approval or client-side reference of the removed owner survives while the others keep theirs, nothing is written to a removed connection by an operation (or approval timer) that began after the removal returned, and every connected peer still gets its discovery read answered.",
         "Sampling; trusted: instrumenter, synctest fake clock (approval timers are fired in the drain), porcupine, registry model (A.5).", "5/C10"),
 "C04": ("deterministic simulation: a bound scripted peer sends remote writes of every shape against lists mixing changeable, unchangeable and flag-less elements on the three functions that carry a changeability flag; snapshot-before / result / snapshot-after oracle (DESIGN A.2) plus a metamorphic twin list holding only the addressed elements",
         "Seeded exploration of remote writes (full, partial with identifiers, partial without identifiers, selector, delete with selector and/or elements, delete combined with partial; written items with and without the flag) against re-initialised lists of 2-4 elements whose flag is true, false or absent, for loadControlLimitListData, setpointListData and deviceConfigurationKeyValueListData. Oracle per write: elements whose flag is not true are identical before/after and never deleted, no flag changes; an error result leaves the list unchanged; a success result means the list equals the reference fold of the write; the verdict equals the verdict of the same write against a twin list that holds only the addressed elements.",
         "Sampling; trusted: instrumenter, synctest, reference fold (A.1) and addressed-element rule (A.2).", "5/C04"),
 "C05": ("deterministic simulation with net.corrupt as the dominant fault: valid traffic of every kind from a scripted peer is mutated at byte level (flip, truncate, splice, insert, replace) and structure level (remove/null/empty/retype/unknown/extreme/duplicate/swap up to three JSON nodes) and delivered before discovery, after reconnects and interleaved with a well-behaved peer; panics are caught at every task boundary, wedges are detected as states, a post-fault discovery read probes service",
         "Seeded exploration of malformed inputs derived from valid discovery replies/notifications, subscription and binding calls, reads (with filters), replies, notifies and writes with every filter shape, results and node management data, by mutating up to three fields (or bytes) per datagram, delivered in any connection state (before the discovery reply, after reconnect, interleaved with another peer). Oracle: no task panics (signature = panicking function), no task blocks forever on the stack's locks, and after the faults stop every connected peer whose node management feature is still known gets exactly one reply to a valid detailed-discovery read.",
         "Sampling; trusted: instrumenter, synctest, mutation engine harness/mutate.go. Inputs are datagrams at the SPINE payload level (SHIP framing is outside spine-go).", "5/C05"),
 "C06": ("deterministic simulation: scripted announcers mutate their own model tree and send detailed-discovery replies and partial/full add/remove notifications (several entities per notification, add+remove in one, repeated, unknown removals, nested addresses) after placing subscriptions, bindings and client-side references on the entities; reference-tree oracle (DESIGN A.4) over the remote view, events and registries",
         "Seeded exploration of histories of discovery reply, partial add, partial remove, mixed and full notifications over entity addresses {[1],[2],[1,1],[1,2]} from 1-2 scripted peers, each notification optionally repeated. After every handled notification DeviceRemote.Entities/Features/Operations/FeatureByAddress must render exactly the announced tree (addresses, types, roles, descriptions, read/write operations); at the end exactly one entity-added/removed event per entity that appeared/disappeared, the subscriptions/bindings granted on entities that were never removed are all still listed and those of removed entities are gone, client-side references likewise.",
         "Sampling; trusted: instrumenter, synctest, reference tree semantics A.4. Full notifications that change an entity that stays, selectors etc. are not generated (statement leaves them open).", "5/C06"),
 "C07": ("deterministic simulation: seeded schedules over concurrent GetOrAddFeature/NextFeatureId tasks + discovery replies vs. a model of the local tree; identity/uniqueness oracle",
         "Seeded exploration of interleavings at lock/spawn/atomic granularity (statement granularity in entity_local.go in the thorough tier) of concurrent feature creation, and of histories of entity/feature additions and removals interleaved with discovery reads from subscribed and unsubscribed scripted peers; every discovery reply and every add/remove notification is compared with a model built from the harness's own calls.",
         "Sampling of schedules and histories; trusted: instrumenter rewrites, synctest, the local-tree model in harness/sc_c07*.go.", "5/C07"),
 "C08": ("deterministic simulation: scripted peers issue subscribe/unsubscribe/listing calls (with duplicated deliveries) while app tasks change data; porcupine linearizability of the registry history + exactly-once fan-out oracle over the outbound traces",
         "Seeded exploration of histories of subscription calls (valid, duplicate, wrong role/type, unknown addresses, omitted device, listing calls) from 2-3 peers with overlapping numbering, interleaved with SetData/UpdateData from app tasks and net.dup faults; results and listings are checked for linearizability against the sequential registry; each data change must produce exactly one notify per certainly-subscribed remote feature, none to certainly-unsubscribed ones.",
         "Sampling; trusted: instrumenter, synctest, porcupine, registry model (Appendix A.5); a change overlapping a registry operation on the same key accepts 0 or 1 notify.", "5/C08"),
 "C09": ("deterministic simulation: two/three scripted peers with overlapping numbering, reader tasks interleaved by a seeded scheduler; porcupine linearizability of the call/result history against a sequential registry + per-step invariant",
         "Seeded exploration of histories of bind/unbind calls (valid, second binding, wrong role/type, unknown addresses, omitted device) from 2-3 peers with concurrent handling on different connections; invariant |bindings(f)|<=1 after every scheduling step; porcupine linearizability of results and final listings against the sequential registry; event counts.",
         "Sampling; trusted: instrumenter, synctest, porcupine, the registry model (DESIGN Appendix A.5).", "5/C09"),
}

NOT_APPLICABLE = {
 "C18": "pure function of struct-tag tables and one input value: no schedule, clock, peer or fault can change the outcome; deciding it is input enumeration, not deterministic simulation (DESIGN.md section 6)",
 "C19": "pure input->output numeric/temporal conversions with no interleaving, fault or multi-party behaviour; the single time.Now() read is too thin to carry the property (DESIGN.md section 6)",
}

PENDING = {}

# additions made while the checks were strengthened against seeded changes (DESIGN.md section 11):
# id -> (appended to technique, appended to level text)
ADDENDA = {
 "C01": ("; a fixture with a write-protected element makes authorised writes that the data layer refuses", " A third of the runs hold a write-protected element that every write to its function addresses (one error result whatever ackRequest says)."),
 "C03": ("; peers also announce known entities again and write with the source device omitted or naming another peer", " Writes carry their true source address, omit its device part, or name another peer's device; who writes is decided by the connection."),
 "C05": ("; the application adds and removes an entity meanwhile; deadlock-directed search (lock-order candidates re-executed with a scheduler that holds back the second acquisition)", " Registry calls also use the peers' node-management features as clients (possible before discovery); a lock-order candidate seen in any run is re-executed by the deadlock-directed scheduler."),
 "C07": ("; announcement causality rule for subscribed peers", " What a subscribed peer was told (entity added / removed) before its read was handled must hold in the reply."),
 "C08": ("; in half of the runs with three peers the last peer's connection is removed while the others go on", ""),
 "C10": ("; the application answers half of the approval requests; deadlock-directed search", " Connections are removed only when no message of that very connection is in flight (the statement quantifies over removals while messages of other peers are being processed)."),
 "C12": ("; variant approval-across-reconnect (conn.drop, conn.restart, peer.restart: the abandoned write's counter is reused on the next connection); deadlock-directed search", " Variant approval-across-reconnect: a write is pending when its connection is removed, the peer comes back restarted and sends a write with the same counter, verdicts come before/after the old and the new deadline; that write gets exactly one outcome decided by its own verdicts and deadline, nothing of the abandoned write reaches either connection after the removal."),
 "C13": ("; variant responses-on-the-wire (response datagrams of five kinds, the request repeated from the response callback)", " Variant responses-on-the-wire: every request of a single task is sent under a new counter iff no identical request is unanswered, where responses are datagrams of the peer (reply, error result, reply from an unknown feature, to an unknown local feature, with a foreign function) and the request is also repeated from inside the response callback."),
 "C14": ("", " A third of the matching replies carry a partial filter (the callback still gets the received data)."),
 "C16": ("; operations continue after RemoveEntity; deadlock-directed search", ""),
 "C17": ("; deadlock-directed search: any run showing two tasks taking two stack locks in opposite orders is re-executed with a scheduler that holds back the second acquisitions, the resulting schedule is recorded as an ordinary replayable tape", " The first peer mostly owns the binding on the approval-guarded feature and has writes pending throughout."),
}

# wave 10 (inputs that are legal but inconsistent; oracle tables no longer mirror the implementation)
ADDENDA2 = {
 "C01": ("; peers may announce two features of one type and role, half of the requests then come from the second one", ""),
 "C02": ("; two-digit identifier parts; structured identifiers (address keys); filter members found by wire name, not by the implementation's tags", " Functions whose identifier is a structured element (device / entity / feature address) are included; what a filter says is taken from the generated selector and elements objects, never read back through the implementation."),
 "C03": ("; the optional function element of a write is absent, consistent, or names another function of the feature", ""),
 "C05": ("; filtered cmds whose function element names another function, nothing or an unknown one; structured elements and structured selector members", ""),
 "C07": ("; in a third of the runs the subscription overtakes the subscriber's own discovery reply, in half the other peer subscribes and unsubscribes meanwhile, in half the subscriber repeats its request (after a repeated discovery reply)", ""),
 "C08": ("; variant notify-payload (every list function and update shape: one notification carrying what the function holds); peers remove their second entity when their requests are over (peer.entity_remove), half of the time naming an unknown entity first", ""),
 "C09": ("; a sixth of the requests ask for a server feature type that is not the features' type (Generic or random)", ""),
 "C17": ("; the observer also calls the rarely used getters (DestinationData, FeatureSet, Information)", ""),
 "C04": ("; a quarter of the stored lists begin with an element without identifier", ""),
 "C11": ("; variant stack-refreshed-data (heartbeat data kept over ticks, stops and restarts)", " Variant stack-refreshed-data: DataCopy results of the heartbeat function - rewritten by the stack itself on every tick - are kept over several ticks and must not change."),
 "C12": ("; in the reconnect variant one of two callbacks may approve a write alone and the removal may come after the first write has timed out", ""),
 "C13": ("; a quarter of the responses reference a notification's counter", ""),
 "C14": ("; a bystander peer connects and is removed at a random point (conn.drop)", ""),
}


# waves 12-13: the MIRROR family (two real nodes) and the strengthenings recorded in DESIGN.md section 11
MIRROR = " A quarter of the runs use the MIRROR family: two real nodes (two spine.DeviceLocal) connected to each other through the simulated transport, each with server and client features, application tasks on both sides (subscribe, bind, read, write through the public API, local updates, an entity that comes and goes, use-case changes) and a link that is dropped on each side at its own moment and set up again (conn.drop, conn.restart); no scripted peer takes part."
ADDENDA3 = {
 "C01": ("; the device part of request destinations is present, omitted or another device's; variant mirror-responses (two real nodes: every read / acknowledged message one node handled is answered by exactly one datagram of the other, counters unique per direction)", MIRROR),
 "C02": ("; delete selectors that name only part of a composite identifier (several matches)", ""),
 "C04": ("; variant write-races-local-protection: the application write-protects the addressed element while the write is handled - the outcome must be one of the two serial histories, with the matching result", " Variant write-races-local-protection (a quarter of the runs): a local partial update that protects element X runs concurrently with the handling of a remote partial write to X; data and result must equal 'write then protection' (success) or 'protection then write' (error)."),
 "C05": ("; descriptions of announced features change and discovery reads arrive during the traffic", ""),
 "C06": ("; variant mirror-tree (two real nodes: the remote view and the use cases either node holds of the other equal what the other's application built, through entity and use-case changes, link drops and reconnects)", MIRROR),
 "C07": ("; descriptions of announced features change between reads", ""),
 "C08": ("; delete calls naming another peer's device; a peer that subscribes before answering discovery, loses its connection and returns; variant mirror-replication (two real nodes: a client that subscribed and read holds what the server holds once traffic has drained)", MIRROR),
 "C09": ("; delete calls naming another peer's device", ""),
 "C10": ("; a peer whose discovery reply is lost (no device address) is removed with a write pending; variant mirror-teardown (two real nodes: after a link drop nothing of the other node is left in either node's registries, remote devices and client-side bookkeeping)", MIRROR),
 "C12": ("; variant repeated-counter (the same message counter again on the same connection after the outcome, per-round verdicts)", " Variant repeated-counter: 2-3 rounds of a write with one message counter on one connection, each round with its own verdicts (approve, deny, silent); a round is applied iff every callback approved that round."),
 "C13": ("; bulk of unanswered requests after many answered ones", ""),
 "C14": ("; variant mirror-callbacks (two real nodes: every request of a client application whose answer was handled after the registration had returned has its callback invoked exactly once)", MIRROR),
 "C15": ("; the only peer leaves (the stack unsubscribes its own handler) and returns while events are published; a second core level handler unsubscribes itself inside its handler; deadlock-directed search", ""),
 "C16": ("; timeouts the announcement cannot express exactly (150 ms, 250 ms, 1250 ms); the gap is bounded by the announced timeout", ""),
 "C17": ("; descriptions change while peers read the tree; deadlock-directed search with pre-hold (a task is also held back before its first acquisition of a candidate)", ""),
}

def main():
    all_ids = ["C%02d" % i for i in range(1, 21)]
    checks = []
    for pid in all_ids:
        if pid not in CLAIMED:
            continue
        tech, text, note, ref = CLAIMED[pid]
        if pid in ADDENDA:
            tech, text = tech + ADDENDA[pid][0], text + ADDENDA[pid][1]
        if pid in ADDENDA2:
            tech, text = tech + ADDENDA2[pid][0], text + ADDENDA2[pid][1]
        if pid in ADDENDA3:
            tech, text = tech + ADDENDA3[pid][0], text + ADDENDA3[pid][1]
        checks.append({
            "property_id": pid,
            "quick_cmd": "./check %s quick" % pid,
            "thorough_cmd": "./check %s thorough" % pid,
            "evidence_file": "/verif/evidence/%s.json" % pid,
            "replay_cmd_template": "./check %s --replay {path}" % pid,
            "engine": "simrt",
            "level_claimed": {"category": "exploration", "text": text, "design_ref": "DESIGN.md section " + ref},
            "level_note": note,
            "technique": tech,
        })
    na = []
    for pid in all_ids:
        if pid in CLAIMED:
            continue
        if pid in NOT_APPLICABLE:
            na.append({"property_id": pid, "reason": NOT_APPLICABLE[pid]})
        else:
            na.append({"property_id": pid, "reason": PENDING.get(pid, "not claimed yet: the simulation scenario for this property is not built at this commit (work in progress, see DESIGN.md section 5)")})
    m = {
        "version": 1,
        "setup_cmd": "cd /verif && export GOFLAGS=-mod=mod GOPROXY=off GOSUMDB=off GOTOOLCHAIN=local && mkdir -p bin && go1.26.8 build -o bin/instrument ./tools/instrument && go1.26.8 build -o bin/vcheck ./cmd/vcheck && go1.26.8 build std && go1.26.8 build -race std && ./check warm",
        "hooks": {
            "guard": "verif-overlay (no source change in /repo: instrumentation is applied to scratch copies through `go build -overlay`)",
            "enable": "tools/instrument rewrites the current /repo tree into a scratch directory (sync.Mutex->simrt.Mutex, go->simrt.Go, time.AfterFunc/NewTicker->simrt wrappers, yields before atomics/close, overlay-only spine/zz_verif.go) and `go1.26.8 test -c -overlay overlay.json` links it with /verif/harness",
            "baseline_off_cmd": "cd /repo && GOFLAGS=-mod=mod GOPROXY=off GOSUMDB=off go test -vet=off -count=1 ./...",
            "source_commits": [],
            "add_only": True,
        },
        "engines": [{
            "name": "simrt",
            "path": "/verif/simrt + /verif/harness + /verif/cmd/vcheck + /verif/tools/instrument",
            "serves_properties": [c["property_id"] for c in checks],
            "kind_free_text": "deterministic simulation with fault injection: token-passing seeded scheduler inside a testing/synctest bubble over an instrumented (overlay) build of the real stack, simulated network, scripted and real peers, choice tape with replay and tape-level minimisation, reference-model oracles, porcupine linearizability, race detector under owned schedules",
        }],
        "checks": checks,
        "not_applicable": na,
        "notes": "Exit codes of ./check: 0 held (KNOWN-FINDING lines allowed), 1 VIOLATION property=<id> replay=<path>, 2 tooling trouble (never a violation). VERIF_SEED, VERIF_BUDGET_S and VERIF_RUNS are honoured. Known findings: /verif/known_findings.json. Seeded mutations used for sensitivity: /verif/seeded/.",
    }
    json.dump(m, open("/verif/MANIFEST.json", "w"), indent=1)
    print("claimed:", [c["property_id"] for c in checks])

main()
