#!/bin/bash
# wave_run.sh "<id> <checks...>" ... : seedverify + seedrun for a wave of seeds in /tmp/wt-<id>
cd "$(dirname "$(readlink -f "$0")")/.." || exit 2
for pair in "$@"; do
  set -- $pair; id=$1; shift
  echo "######## seed $id"
  tools/seedverify.sh /tmp/wt-$id 2>&1 | grep -E "RESULT|CONFIRMED|DOES NOT"
  tools/seedrun.sh /tmp/wt-$id/out/patch.diff "$@" 2>&1 | grep -v "^warning" | cut -c1-260
done
