#!/usr/bin/env python3
"""Pretty-print a replay file: detail + schedule without scheduler chatter. usage: showreplay.py file [substring ...]"""
import json,sys
r=json.load(open(sys.argv[1]))
flt=sys.argv[2:]
print('signature',r['signature'],'| variant',r['variant'],'| tape',sum(len(v) for v in r['tape'].values()),'orig',r['original_tape_len'],'| shrink runs',r['shrink_executions'])
print(r['detail'][:3000])
for l in r['schedule']:
    if ' sched preempt ' in l or ' sched run ' in l: continue
    if 'NodeManagementUseCaseData' in l: continue
    if flt and not any(f in l for f in flt) and 'VIOLATION' not in l: continue
    print('  ',l[:300])
