// Command instrument rewrites the current working tree of spine-go into a scratch directory
// and emits an overlay.json for `go build -overlay`. /repo itself is never modified.
//
// Rewrites (see DESIGN.md 2.1):
//  1. sync.Mutex / sync.RWMutex types  -> simrt.Mutex / simrt.RWMutex
//  2. go F(args)                       -> simrt.Go(loc, func(){ f(args) }) with callee and args pre-evaluated
//  3. time.AfterFunc / time.NewTicker  -> simrt.AfterFunc / simrt.NewTicker
//  4. simrt.Yield(loc) before statements containing atomic.* calls or close(...)
//  5. optional statement-level yields for the files listed in -stmt
//  6. overlay-only spine/zz_verif.go with read-only accessors
//  7. (-quietlog) ship-go/logging: sync.Mutex -> simrt.QuietMutex
//
// Exit status 2 on any construct it cannot handle.
package main

import (
	"bytes"
	"encoding/json"
	"flag"
	"fmt"
	"go/ast"
	"go/format"
	"go/parser"
	"go/token"
	"os"
	"path/filepath"
	"sort"
	"strconv"
	"strings"
)

const simrtPath = "verifsim/simrt"

var (
	repo     = flag.String("repo", "/repo", "repository root")
	out      = flag.String("out", "", "scratch output directory")
	stmtList = flag.String("stmt", "", "comma separated file names (relative to repo) that get statement-level yields")
	logDir   = flag.String("quietlog", "", "directory of ship-go/logging to instrument (optional)")
)

func fatal(format string, a ...any) {
	fmt.Fprintf(os.Stderr, "instrument: "+format+"\n", a...)
	os.Exit(2)
}

// maps (by field name) that are iterated with scheduling points inside the loop body
var sortedRangeMaps = map[string]bool{"remoteDevices": true}

type stats struct {
	SortedRange                                             int
	Mutex, RWMutex, Go, AfterFunc, Ticker, Yield, StmtYield int
	Files                                                   int
	Unsupported                                             []string
}

var st stats

func main() {
	flag.Parse()
	if *out == "" {
		fatal("-out required")
	}
	stmtFiles := map[string]bool{}
	for _, f := range strings.Split(*stmtList, ",") {
		if f != "" {
			stmtFiles[f] = true
		}
	}
	overlay := map[string]string{}
	for _, pkg := range []string{"spine", "model", "util", "api"} {
		dir := filepath.Join(*repo, pkg)
		ents, err := os.ReadDir(dir)
		if err != nil {
			fatal("%v", err)
		}
		for _, e := range ents {
			n := e.Name()
			if e.IsDir() || !strings.HasSuffix(n, ".go") || strings.HasSuffix(n, "_test.go") {
				continue
			}
			src := filepath.Join(dir, n)
			rel := pkg + "/" + n
			res, changed := rewriteFile(src, rel, stmtFiles[rel], false)
			if !changed {
				continue
			}
			dst := filepath.Join(*out, pkg, n)
			write(dst, res)
			overlay[src] = dst
			st.Files++
		}
	}
	// overlay-only accessor file
	zz := filepath.Join(*out, "spine", "zz_verif.go")
	write(zz, []byte(zzVerif))
	overlay[filepath.Join(*repo, "spine", "zz_verif.go")] = zz

	if *logDir != "" {
		ents, err := os.ReadDir(*logDir)
		if err != nil {
			fatal("%v", err)
		}
		for _, e := range ents {
			n := e.Name()
			if e.IsDir() || !strings.HasSuffix(n, ".go") || strings.HasSuffix(n, "_test.go") {
				continue
			}
			src := filepath.Join(*logDir, n)
			res, changed := rewriteFile(src, "shiplog/"+n, false, true)
			if !changed {
				continue
			}
			dst := filepath.Join(*out, "shiplog", n)
			write(dst, res)
			overlay[src] = dst
		}
	}
	if len(st.Unsupported) > 0 {
		fatal("unsupported constructs:\n  %s", strings.Join(st.Unsupported, "\n  "))
	}
	ov, _ := json.MarshalIndent(map[string]any{"Replace": overlay}, "", " ")
	write(filepath.Join(*out, "overlay.json"), ov)
	sj, _ := json.Marshal(st)
	write(filepath.Join(*out, "instrument_stats.json"), sj)
	fmt.Println(string(sj))
}

func write(path string, data []byte) {
	if err := os.MkdirAll(filepath.Dir(path), 0o755); err != nil {
		fatal("%v", err)
	}
	if err := os.WriteFile(path, data, 0o644); err != nil {
		fatal("%v", err)
	}
}

type rewriter struct {
	fset     *token.FileSet
	rel      string
	stmt     bool
	quiet    bool
	usedSim  bool
	changed  bool
	tmpCount int
}

func (r *rewriter) loc(p token.Pos) string {
	pos := r.fset.Position(p)
	return fmt.Sprintf("%s:%d", r.rel, pos.Line)
}

func (r *rewriter) sim(name string) ast.Expr {
	r.usedSim = true
	r.changed = true
	return &ast.SelectorExpr{X: ast.NewIdent("simrt"), Sel: ast.NewIdent(name)}
}

func isPkgSel(e ast.Expr, pkg, name string) bool {
	s, ok := e.(*ast.SelectorExpr)
	if !ok {
		return false
	}
	id, ok := s.X.(*ast.Ident)
	return ok && id.Name == pkg && s.Sel.Name == name && id.Obj == nil
}

func isPkgCall(e ast.Expr, pkg string) (string, bool) {
	c, ok := e.(*ast.CallExpr)
	if !ok {
		return "", false
	}
	s, ok := c.Fun.(*ast.SelectorExpr)
	if !ok {
		return "", false
	}
	id, ok := s.X.(*ast.Ident)
	if ok && id.Name == pkg && id.Obj == nil {
		return s.Sel.Name, true
	}
	return "", false
}

func rewriteFile(path, rel string, stmtYield, quiet bool) ([]byte, bool) {
	fset := token.NewFileSet()
	f, err := parser.ParseFile(fset, path, nil, parser.ParseComments)
	if err != nil {
		fatal("%v", err)
	}
	r := &rewriter{fset: fset, rel: rel, stmt: stmtYield, quiet: quiet}

	// unsupported constructs
	ast.Inspect(f, func(n ast.Node) bool {
		switch x := n.(type) {
		case *ast.SelectorExpr:
			for _, bad := range []string{"Cond", "Map", "Pool"} {
				if isPkgSel(x, "sync", bad) {
					st.Unsupported = append(st.Unsupported, fmt.Sprintf("%s: sync.%s", r.loc(x.Pos()), bad))
				}
			}
			for _, bad := range []string{"Tick"} {
				if isPkgSel(x, "time", bad) && !quiet {
					st.Unsupported = append(st.Unsupported, fmt.Sprintf("%s: time.%s", r.loc(x.Pos()), bad))
				}
			}
		case *ast.SendStmt:
			st.Unsupported = append(st.Unsupported, fmt.Sprintf("%s: channel send", r.loc(x.Pos())))
		case *ast.UnaryExpr:
			if x.Op == token.ARROW && !insideSelect(f, x) {
				st.Unsupported = append(st.Unsupported, fmt.Sprintf("%s: channel receive outside select", r.loc(x.Pos())))
			}
		}
		return true
	})

	// 1 + 3: expression level rewrites
	ast.Inspect(f, func(n ast.Node) bool {
		switch x := n.(type) {
		case *ast.Field:
			x.Type = r.rewriteType(x.Type)
		case *ast.ValueSpec:
			if x.Type != nil {
				x.Type = r.rewriteType(x.Type)
			}
		case *ast.CompositeLit:
			if x.Type != nil {
				x.Type = r.rewriteType(x.Type)
			}
		case *ast.CallExpr:
			if isPkgSel(x.Fun, "time", "AfterFunc") {
				l := r.loc(x.Pos())
				x.Fun = r.sim("AfterFunc")
				x.Args = append([]ast.Expr{strLit(l)}, x.Args...)
				st.AfterFunc++
			} else if isPkgSel(x.Fun, "time", "NewTicker") {
				l := r.loc(x.Pos())
				x.Fun = r.sim("NewTicker")
				x.Args = append([]ast.Expr{strLit(l)}, x.Args...)
				st.Ticker++
			} else if !r.quiet && (isPkgSel(x.Fun, "time", "NewTimer") || isPkgSel(x.Fun, "time", "Sleep") || isPkgSel(x.Fun, "time", "After")) {
				// (not used by the pinned tree; a changed tree may use them)
				l := r.loc(x.Pos())
				x.Fun = r.sim(x.Fun.(*ast.SelectorExpr).Sel.Name)
				x.Args = append([]ast.Expr{strLit(l)}, x.Args...)
			}
		}
		return true
	})

	// 1b: iteration over maps whose loop body contains scheduling points (lock operations)
	// must not depend on Go's randomised map order: iterate over the sorted keys instead
	if !quiet {
		ast.Inspect(f, func(n ast.Node) bool {
			rs, ok := n.(*ast.RangeStmt)
			if !ok || rs.Tok != token.DEFINE {
				return true
			}
			sel, ok := rs.X.(*ast.SelectorExpr)
			if !ok || !sortedRangeMaps[sel.Sel.Name] {
				return true
			}
			r.tmpCount++
			kname := fmt.Sprintf("simrtK%d", r.tmpCount)
			var pre []ast.Stmt
			if id, ok := rs.Key.(*ast.Ident); ok && id.Name != "_" {
				pre = append(pre, &ast.AssignStmt{Lhs: []ast.Expr{ast.NewIdent(id.Name)}, Tok: token.DEFINE, Rhs: []ast.Expr{ast.NewIdent(kname)}},
					&ast.AssignStmt{Lhs: []ast.Expr{ast.NewIdent("_")}, Tok: token.ASSIGN, Rhs: []ast.Expr{ast.NewIdent(id.Name)}})
			}
			if id, ok := rs.Value.(*ast.Ident); ok && id.Name != "_" {
				pre = append(pre, &ast.AssignStmt{Lhs: []ast.Expr{ast.NewIdent(id.Name)}, Tok: token.DEFINE,
					Rhs: []ast.Expr{&ast.IndexExpr{X: rs.X, Index: ast.NewIdent(kname)}}})
			}
			rs.X = &ast.CallExpr{Fun: r.sim("SortedKeys"), Args: []ast.Expr{rs.X}}
			rs.Key = ast.NewIdent("_")
			rs.Value = ast.NewIdent(kname)
			rs.Body.List = append(pre, rs.Body.List...)
			st.SortedRange++
			return true
		})
	}

	// 2 + 4 + 5: statement level rewrites
	if !quiet {
		// no statement-level yields inside range loops: the number of iterations executed
		// before a break depends on Go's randomised map iteration order, and a scheduling
		// point per iteration would make the schedule depend on it
		inRange := map[ast.Node]bool{}
		ast.Inspect(f, func(n ast.Node) bool {
			if rs, ok := n.(*ast.RangeStmt); ok {
				ast.Inspect(rs.Body, func(m ast.Node) bool {
					switch m.(type) {
					case *ast.BlockStmt, *ast.CaseClause, *ast.CommClause:
						inRange[m] = true
					}
					return true
				})
			}
			// the same for comparison functions handed to sort / slices: how often they are called
			// depends on the order of the input, which comes from a map iteration more often than not
			if call, ok := n.(*ast.CallExpr); ok {
				if sel, ok := call.Fun.(*ast.SelectorExpr); ok {
					if id, ok := sel.X.(*ast.Ident); ok && (id.Name == "sort" || id.Name == "slices") {
						for _, a := range call.Args {
							if fl, ok := a.(*ast.FuncLit); ok {
								ast.Inspect(fl.Body, func(m ast.Node) bool {
									switch m.(type) {
									case *ast.BlockStmt, *ast.CaseClause, *ast.CommClause:
										inRange[m] = true
									}
									return true
								})
							}
						}
					}
				}
			}
			return true
		})
		ast.Inspect(f, func(n ast.Node) bool {
			save := r.stmt
			if inRange[n] {
				r.stmt = false
			}
			switch x := n.(type) {
			case *ast.BlockStmt:
				x.List = r.rewriteList(x.List)
			case *ast.CaseClause:
				x.Body = r.rewriteList(x.Body)
			case *ast.CommClause:
				x.Body = r.rewriteList(x.Body)
			}
			r.stmt = save
			return true
		})
	}

	if !r.changed {
		return nil, false
	}
	fixImports(f, r.usedSim)
	// keep only the comments that precede the package clause (build constraints, licence);
	// go/printer misplaces free-floating comments around inserted nodes
	var keep []*ast.CommentGroup
	for _, cg := range f.Comments {
		if cg.End() < f.Package {
			keep = append(keep, cg)
		}
	}
	f.Comments = keep
	var buf bytes.Buffer
	if err := format.Node(&buf, fset, f); err != nil {
		fatal("%s: %v", path, err)
	}
	return buf.Bytes(), true
}

func insideSelect(f *ast.File, target ast.Node) bool {
	found := false
	ast.Inspect(f, func(n ast.Node) bool {
		if cc, ok := n.(*ast.CommClause); ok && cc.Comm != nil {
			ast.Inspect(cc.Comm, func(m ast.Node) bool {
				if m == target {
					found = true
				}
				return true
			})
		}
		return !found
	})
	return found
}

func (r *rewriter) rewriteType(t ast.Expr) ast.Expr {
	switch {
	case isPkgSel(t, "sync", "Mutex"):
		st.Mutex++
		if r.quiet {
			return r.sim("QuietMutex")
		}
		return r.sim("Mutex")
	case isPkgSel(t, "sync", "RWMutex"):
		st.RWMutex++
		if r.quiet {
			fatal("%s: RWMutex in quiet package", r.rel)
		}
		return r.sim("RWMutex")
	case !r.quiet && isPkgSel(t, "sync", "Once"):
		return r.sim("Once")
	case !r.quiet && isPkgSel(t, "sync", "WaitGroup"):
		return r.sim("WaitGroup")
	}
	return t
}

func strLit(s string) ast.Expr {
	return &ast.BasicLit{Kind: token.STRING, Value: strconv.Quote(s)}
}

func (r *rewriter) yieldStmt(loc string) ast.Stmt {
	return &ast.ExprStmt{X: &ast.CallExpr{Fun: r.sim("Yield"), Args: []ast.Expr{strLit(loc)}}}
}

// containsSyncOp reports whether the statement itself (not nested blocks or function
// literals) contains an atomic.* call or a close(...) call.
func containsSyncOp(s ast.Stmt) bool {
	found := false
	ast.Inspect(s, func(n ast.Node) bool {
		if found {
			return false
		}
		switch x := n.(type) {
		case *ast.BlockStmt, *ast.FuncLit:
			if n != ast.Node(s) {
				return false
			}
		case *ast.CallExpr:
			if _, ok := isPkgCall(x, "atomic"); ok {
				found = true
			}
			if id, ok := x.Fun.(*ast.Ident); ok && id.Name == "close" && id.Obj == nil {
				found = true
			}
		}
		return true
	})
	return found
}

func (r *rewriter) rewriteList(list []ast.Stmt) []ast.Stmt {
	var outl []ast.Stmt
	for _, s := range list {
		if g, ok := s.(*ast.GoStmt); ok {
			outl = append(outl, r.rewriteGo(g))
			st.Go++
			continue
		}
		switch s.(type) {
		case *ast.CaseClause, *ast.CommClause:
			// bodies of switch/select: clauses are handled on their own
		case *ast.IfStmt, *ast.ForStmt, *ast.RangeStmt, *ast.SwitchStmt, *ast.TypeSwitchStmt, *ast.SelectStmt, *ast.BlockStmt, *ast.LabeledStmt:
			// compound: sync ops inside are handled in their own blocks; the header of an
			// if/for/switch may contain one too
			if hdrHasSyncOp(s) {
				outl = append(outl, r.yieldStmt(r.loc(s.Pos())))
				st.Yield++
			} else if r.stmt {
				outl = append(outl, r.yieldStmt(r.loc(s.Pos())))
				st.StmtYield++
			}
		default:
			if containsSyncOp(s) {
				outl = append(outl, r.yieldStmt(r.loc(s.Pos())))
				st.Yield++
			} else if r.stmt {
				if _, isDecl := s.(*ast.DeclStmt); !isDecl {
					outl = append(outl, r.yieldStmt(r.loc(s.Pos())))
					st.StmtYield++
				}
			}
		}
		outl = append(outl, s)
	}
	return outl
}

func hdrHasSyncOp(s ast.Stmt) bool {
	var parts []ast.Node
	switch x := s.(type) {
	case *ast.IfStmt:
		if x.Init != nil {
			parts = append(parts, x.Init)
		}
		parts = append(parts, x.Cond)
	case *ast.ForStmt:
		if x.Init != nil {
			parts = append(parts, x.Init)
		}
		if x.Cond != nil {
			parts = append(parts, x.Cond)
		}
	case *ast.SwitchStmt:
		if x.Init != nil {
			parts = append(parts, x.Init)
		}
		if x.Tag != nil {
			parts = append(parts, x.Tag)
		}
	case *ast.RangeStmt:
		parts = append(parts, x.X)
	}
	for _, p := range parts {
		found := false
		ast.Inspect(p, func(n ast.Node) bool {
			if c, ok := n.(*ast.CallExpr); ok {
				if _, ok := isPkgCall(c, "atomic"); ok {
					found = true
				}
				if id, ok := c.Fun.(*ast.Ident); ok && id.Name == "close" && id.Obj == nil {
					found = true
				}
			}
			if _, ok := n.(*ast.FuncLit); ok {
				return false
			}
			return !found
		})
		if found {
			return true
		}
	}
	return false
}

// rewriteGo turns `go F(a, b)` into
//
//	{ vf, va0, va1 := F, a, b; simrt.Go(loc, func() { vf(va0, va1) }) }
func (r *rewriter) rewriteGo(g *ast.GoStmt) ast.Stmt {
	call := g.Call
	r.tmpCount++
	pfx := fmt.Sprintf("simrtG%d", r.tmpCount)
	lhs := []ast.Expr{ast.NewIdent(pfx + "f")}
	rhs := []ast.Expr{call.Fun}
	var args []ast.Expr
	for i, a := range call.Args {
		id := ast.NewIdent(fmt.Sprintf("%sa%d", pfx, i))
		lhs = append(lhs, id)
		rhs = append(rhs, a)
		args = append(args, ast.NewIdent(id.Name))
	}
	inner := &ast.CallExpr{Fun: ast.NewIdent(pfx + "f"), Args: args}
	if call.Ellipsis.IsValid() {
		inner.Ellipsis = 1
	}
	assign := &ast.AssignStmt{Lhs: lhs, Tok: token.DEFINE, Rhs: rhs}
	spawn := &ast.ExprStmt{X: &ast.CallExpr{
		Fun: r.sim("Go"),
		Args: []ast.Expr{strLit(r.loc(g.Pos())), &ast.FuncLit{
			Type: &ast.FuncType{Params: &ast.FieldList{}},
			Body: &ast.BlockStmt{List: []ast.Stmt{&ast.ExprStmt{X: inner}}},
		}},
	}}
	return &ast.BlockStmt{List: []ast.Stmt{assign, spawn}}
}

func fixImports(f *ast.File, needSim bool) {
	used := map[string]bool{}
	ast.Inspect(f, func(n ast.Node) bool {
		if s, ok := n.(*ast.SelectorExpr); ok {
			if id, ok := s.X.(*ast.Ident); ok && id.Obj == nil {
				used[id.Name] = true
			}
		}
		return true
	})
	for _, d := range f.Decls {
		gd, ok := d.(*ast.GenDecl)
		if !ok || gd.Tok != token.IMPORT {
			continue
		}
		var specs []ast.Spec
		for _, sp := range gd.Specs {
			is := sp.(*ast.ImportSpec)
			p, _ := strconv.Unquote(is.Path.Value)
			if (p == "sync" || p == "time") && is.Name == nil && !used[p] {
				continue
			}
			specs = append(specs, sp)
		}
		if needSim {
			specs = append(specs, &ast.ImportSpec{Path: &ast.BasicLit{Kind: token.STRING, Value: strconv.Quote(simrtPath)}})
			needSim = false
			if !gd.Lparen.IsValid() {
				gd.Lparen = gd.Pos()
				gd.Rparen = gd.End()
			}
		}
		gd.Specs = specs
	}
	if needSim {
		// file had no import declaration
		gd := &ast.GenDecl{Tok: token.IMPORT, Specs: []ast.Spec{&ast.ImportSpec{Path: &ast.BasicLit{Kind: token.STRING, Value: strconv.Quote(simrtPath)}}}}
		f.Decls = append([]ast.Decl{gd}, f.Decls...)
	}
	_ = sort.Strings
}

const zzVerif = `package spine

// Overlay-only file added by /verif/tools/instrument. Read-only accessors for invariants
// the public API does not expose. They take no locks: they are called by the scheduler
// goroutine while every task is parked.

import (
	"sort"

	"github.com/enbility/spine-go/api"
)

// VerifResetEvents resets the process-global event bus between simulated runs.
func VerifResetEvents() { Events = events{} }

// VerifSubscribeCore registers a handler at the core level (what DeviceLocal does for itself).
func VerifSubscribeCore(h api.EventHandlerInterface) { _ = Events.subscribe(api.EventHandlerLevelCore, h) }

// VerifUnsubscribeCore removes a core level handler (what DeviceLocal does when its last remote device goes).
func VerifUnsubscribeCore(h api.EventHandlerInterface) { _ = Events.unsubscribe(api.EventHandlerLevelCore, h) }

// VerifEventHandlerCount returns the number of registered handlers.
func VerifEventHandlerCount() int { return len(Events.handlers) }

// VerifReqCacheLen returns the number of unanswered requests the sender remembers.
func VerifReqCacheLen(s api.SenderInterface) int {
	if x, ok := s.(*Sender); ok {
		return len(x.reqMsgCache)
	}
	return -1
}

// VerifPendingApprovals returns, per SKI, the message counters with a pending write approval.
func VerifPendingApprovals(f api.FeatureLocalInterface) map[string][]uint64 {
	var fl *FeatureLocal
	switch x := f.(type) {
	case *FeatureLocal:
		fl = x
	case *NodeManagement:
		fl = x.FeatureLocal
	}
	res := map[string][]uint64{}
	if fl == nil {
		return res
	}
	for ski, m := range fl.pendingWriteApprovals {
		for c := range m {
			res[ski] = append(res[ski], uint64(c))
		}
		sort.Slice(res[ski], func(i, j int) bool { return res[ski][i] < res[ski][j] })
	}
	return res
}
`
