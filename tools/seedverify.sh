#!/bin/bash
# seedverify.sh <worktree> : confirm a seeded change in a scratch worktree of /repo
#   (1) with the change, without the demonstration: the pinned suite passes
#   (2) with the change and the demonstration: the demonstration fails
#   (3) without the change: the demonstration passes
# expects <worktree>/out/patch.diff and <worktree>/out/*_test.go (demo, package path taken from
# the first line "// dir: <pkgdir>" or defaults to spine)
export GOFLAGS=-mod=mod GOPROXY=off GOSUMDB=off GOTOOLCHAIN=local
wt=$1
cd "$wt" || exit 2
# (the out/ directory must not be picked up as a package)
rm -rf "$wt.out"; mv out "$wt.out"; out="$wt.out"; trap 'mv "$out" "$wt/out"' EXIT
demo=$(ls $out/*_test.go | head -1)
dir=$(grep -m1 -o '^// dir: .*' "$demo" | sed 's,// dir: ,,')
[ -z "$dir" ] && dir=$(grep -m1 '^package ' "$demo" | awk '{print $2}' | sed 's/_test$//')
[ "$dir" = "integrationtests" ] && dir=integration_tests
[ -n "$2" ] && dir=$2
git checkout -q -- . ; git clean -fdq
git apply $out/patch.diff || { echo "PATCH DOES NOT APPLY"; exit 2; }
echo "== (1) suite with the change"
go build ./... && go test -vet=off -count=1 ./... 2>&1 | tail -5
s1=${PIPESTATUS[0]}
cp "$demo" "$dir/zz_seeded_demo_test.go"
echo "== (2) demo with the change (must FAIL)"
go test $SEED_TESTFLAGS -vet=off -count=1 -run Seeded ./$dir/ 2>&1 | tail -15
s2=${PIPESTATUS[0]}
git checkout -q -- .
echo "== (3) demo without the change (must PASS)"
go test $SEED_TESTFLAGS -vet=off -count=1 -run Seeded ./$dir/ 2>&1 | tail -5
s3=${PIPESTATUS[0]}
rm -f "$dir/zz_seeded_demo_test.go"
echo "RESULT suite=$s1 demo_with=$s2 demo_without=$s3"
[ $s1 = 0 ] && [ $s2 != 0 ] && [ $s3 = 0 ] && echo CONFIRMED || echo NOT-CONFIRMED
